//! Lexer, a transliteration of Lua 5.3 `llex.c`.

use crate::numfmt::str2num;
use crate::value::Value;

#[derive(Clone, Debug, PartialEq)]
pub enum Tok {
    And,
    Break,
    Do,
    Else,
    Elseif,
    End,
    False,
    For,
    Function,
    Goto,
    If,
    In,
    Local,
    Nil,
    Not,
    Or,
    Repeat,
    Return,
    Then,
    True,
    Until,
    While,
    IDiv,
    Concat,
    Dots,
    Eq,
    Ge,
    Le,
    Ne,
    Shl,
    Shr,
    DbColon,
    Eos,
    Flt(f64),
    Int(i64),
    /// the text is the token's source span
    Name,
    Str(Vec<u8>),
    Char(u8),
}

pub const RESERVED: [(&str, Tok); 22] = [
    ("and", Tok::And),
    ("break", Tok::Break),
    ("do", Tok::Do),
    ("else", Tok::Else),
    ("elseif", Tok::Elseif),
    ("end", Tok::End),
    ("false", Tok::False),
    ("for", Tok::For),
    ("function", Tok::Function),
    ("goto", Tok::Goto),
    ("if", Tok::If),
    ("in", Tok::In),
    ("local", Tok::Local),
    ("nil", Tok::Nil),
    ("not", Tok::Not),
    ("or", Tok::Or),
    ("repeat", Tok::Repeat),
    ("return", Tok::Return),
    ("then", Tok::Then),
    ("true", Tok::True),
    ("until", Tok::Until),
    ("while", Tok::While),
];

#[inline]
fn reserved(s: &[u8]) -> Option<Tok> {
    if s.len() < 2 || s.len() > 8 || !s[0].is_ascii_lowercase() {
        return None;
    }
    Some(match s {
        b"and" => Tok::And,
        b"break" => Tok::Break,
        b"do" => Tok::Do,
        b"else" => Tok::Else,
        b"elseif" => Tok::Elseif,
        b"end" => Tok::End,
        b"false" => Tok::False,
        b"for" => Tok::For,
        b"function" => Tok::Function,
        b"goto" => Tok::Goto,
        b"if" => Tok::If,
        b"in" => Tok::In,
        b"local" => Tok::Local,
        b"nil" => Tok::Nil,
        b"not" => Tok::Not,
        b"or" => Tok::Or,
        b"repeat" => Tok::Repeat,
        b"return" => Tok::Return,
        b"then" => Tok::Then,
        b"true" => Tok::True,
        b"until" => Tok::Until,
        b"while" => Tok::While,
        _ => return None,
    })
}

pub struct LexError {
    pub line: u32,
    pub msg: String,
}

pub struct Lexer<'a> {
    src: &'a [u8],
    pos: usize,
    /// current char, -1 = EOZ
    cur: i32,
    pub line: u32,
    buf: Vec<u8>,
    tok_start: usize,
}

const EOZ: i32 = -1;

fn is_lalpha(c: i32) -> bool {
    c >= 0 && ((c as u8).is_ascii_alphabetic() || c as u8 == b'_')
}
fn is_digit(c: i32) -> bool {
    c >= 0 && (c as u8).is_ascii_digit()
}
fn is_xdigit(c: i32) -> bool {
    c >= 0 && (c as u8).is_ascii_hexdigit()
}
fn is_space(c: i32) -> bool {
    matches!(c, 32 | 9 | 10 | 11 | 12 | 13)
}
fn is_print(c: u8) -> bool {
    (0x20..0x7f).contains(&c)
}

/// `luaX_token2str` for tokens without semantic info
pub fn token2str(t: &Tok) -> String {
    match t {
        Tok::Char(c) => {
            if is_print(*c) {
                format!("'{}'", *c as char)
            } else {
                format!("'<\\{}>'", c)
            }
        }
        Tok::IDiv => "'//'".into(),
        Tok::Concat => "'..'".into(),
        Tok::Dots => "'...'".into(),
        Tok::Eq => "'=='".into(),
        Tok::Ge => "'>='".into(),
        Tok::Le => "'<='".into(),
        Tok::Ne => "'~='".into(),
        Tok::Shl => "'<<'".into(),
        Tok::Shr => "'>>'".into(),
        Tok::DbColon => "'::'".into(),
        Tok::Eos => "<eof>".into(),
        Tok::Flt(_) => "<number>".into(),
        Tok::Int(_) => "<integer>".into(),
        Tok::Name => "<name>".into(),
        Tok::Str(_) => "<string>".into(),
        other => {
            for (s, t) in RESERVED.iter() {
                if t == other {
                    return format!("'{}'", s);
                }
            }
            "?".into()
        }
    }
}

impl<'a> Lexer<'a> {
    pub fn new(src: &'a [u8], skip_hash_line: bool) -> Lexer<'a> {
        let mut lx = Lexer { src, pos: 0, cur: EOZ, line: 1, buf: Vec::new(), tok_start: 0 };
        if skip_hash_line && src.starts_with(&[0xEF, 0xBB, 0xBF]) {
            lx.pos = 3; // luaL_loadfilex skips a UTF-8 byte order mark
        }
        lx.next_char();
        // skip a first-line comment starting with '#' (as luaL_loadfilex does)
        if skip_hash_line && lx.cur == b'#' as i32 {
            while lx.cur != EOZ && lx.cur != b'\n' as i32 {
                lx.next_char();
            }
        }
        lx
    }

    #[inline]
    fn next_char(&mut self) {
        if self.pos < self.src.len() {
            self.cur = self.src[self.pos] as i32;
            self.pos += 1;
        } else {
            self.cur = EOZ;
        }
    }

    #[inline]
    fn save(&mut self, c: i32) {
        self.buf.push(c as u8);
    }

    #[inline]
    fn save_and_next(&mut self) {
        self.buf.push(self.cur as u8);
        self.next_char();
    }

    fn cur_is_newline(&self) -> bool {
        self.cur == b'\n' as i32 || self.cur == b'\r' as i32
    }

    fn inc_line(&mut self) {
        let old = self.cur;
        self.next_char();
        if self.cur_is_newline() && self.cur != old {
            self.next_char();
        }
        self.line = self.line.saturating_add(1);
    }

    /// Text of the current buffer for "near" messages.
    fn buf_text(&self) -> String {
        format!("'{}'", String::from_utf8_lossy(&self.buf))
    }

    /// `lexerror` with a token kind: 0 = none, 1 = buffer text, 2 = <eof>
    fn error(&self, msg: &str, near: u8) -> LexError {
        let m = match near {
            1 => format!("{} near {}", msg, self.buf_text()),
            2 => format!("{} near <eof>", msg),
            _ => msg.to_string(),
        };
        LexError { line: self.line, msg: m }
    }

    fn check_next1(&mut self, c: u8) -> bool {
        if self.cur == c as i32 {
            self.next_char();
            true
        } else {
            false
        }
    }

    fn check_next2(&mut self, set: &[u8; 2]) -> bool {
        if self.cur == set[0] as i32 || self.cur == set[1] as i32 {
            self.save_and_next();
            true
        } else {
            false
        }
    }

    fn read_numeral(&mut self) -> Result<Tok, LexError> {
        let mut expo = b"Ee";
        let first = self.cur;
        self.save_and_next();
        if first == b'0' as i32 && self.check_next2(b"xX") {
            expo = b"Pp";
        }
        loop {
            if self.check_next2(expo) {
                self.check_next2(b"-+");
            }
            if is_xdigit(self.cur) {
                self.save_and_next();
            } else if self.cur == b'.' as i32 {
                self.save_and_next();
            } else {
                break;
            }
        }
        match str2num(&self.buf) {
            Some(Value::Int(i)) => Ok(Tok::Int(i)),
            Some(Value::Float(f)) => Ok(Tok::Flt(f)),
            _ => Err(self.error("malformed number", 1)),
        }
    }

    /// returns the count of '=' for `[==[`, or `-(count) - 1` otherwise
    fn skip_sep(&mut self) -> i32 {
        let mut count = 0;
        let s = self.cur;
        self.save_and_next();
        while self.cur == b'=' as i32 {
            self.save_and_next();
            count += 1;
        }
        if self.cur == s {
            count
        } else {
            -count - 1
        }
    }

    fn read_long_string(&mut self, is_string: bool, sep: i32) -> Result<Option<Vec<u8>>, LexError> {
        let line = self.line;
        self.save_and_next(); // skip 2nd '['
        if self.cur_is_newline() {
            self.inc_line();
        }
        loop {
            match self.cur {
                EOZ => {
                    let what = if is_string { "string" } else { "comment" };
                    let msg = format!("unfinished long {} (starting at line {})", what, line);
                    return Err(self.error(&msg, 2));
                }
                c if c == b']' as i32 => {
                    if self.skip_sep() == sep {
                        self.save_and_next(); // skip 2nd ']'
                        break;
                    }
                }
                c if c == b'\n' as i32 || c == b'\r' as i32 => {
                    self.save(b'\n' as i32);
                    self.inc_line();
                    if !is_string {
                        self.buf.clear();
                    }
                }
                _ => {
                    if is_string {
                        self.save_and_next();
                    } else {
                        self.next_char();
                    }
                }
            }
        }
        if is_string {
            let skip = 2 + sep as usize;
            let s = self.buf[skip..self.buf.len() - skip].to_vec();
            Ok(Some(s))
        } else {
            Ok(None)
        }
    }

    fn esc_check(&mut self, ok: bool, msg: &str) -> Result<(), LexError> {
        if !ok {
            if self.cur != EOZ {
                self.save_and_next(); // add current to buffer for error message
            }
            return Err(self.error(msg, 1));
        }
        Ok(())
    }

    fn get_hexa(&mut self) -> Result<u32, LexError> {
        self.save_and_next();
        let ok = is_xdigit(self.cur);
        self.esc_check(ok, "hexadecimal digit expected")?;
        Ok((self.cur as u8 as char).to_digit(16).unwrap_or(0))
    }

    fn read_hex_esc(&mut self) -> Result<u32, LexError> {
        let r = self.get_hexa()?;
        let r = (r << 4) + self.get_hexa()?;
        let n = self.buf.len();
        self.buf.truncate(n - 2); // remove saved chars from buffer
        Ok(r)
    }

    fn read_utf8_esc(&mut self) -> Result<u64, LexError> {
        let mut i = 4; // chars to be removed: '\', 'u', '{', and first digit
        self.save_and_next(); // skip 'u'
        let ok = self.cur == b'{' as i32;
        self.esc_check(ok, "missing '{' in \\u{xxxx}")?;
        let mut r = self.get_hexa()? as u64;
        loop {
            self.save_and_next();
            if !is_xdigit(self.cur) {
                break;
            }
            i += 1;
            r = (r << 4) + (self.cur as u8 as char).to_digit(16).unwrap_or(0) as u64;
            self.esc_check(r <= 0x10FFFF, "UTF-8 value too large")?;
        }
        let ok = self.cur == b'}' as i32;
        self.esc_check(ok, "missing '}' in \\u{xxxx}")?;
        self.next_char(); // skip '}'
        let n = self.buf.len();
        self.buf.truncate(n - i);
        Ok(r)
    }

    fn utf8_esc(&mut self) -> Result<(), LexError> {
        let x = self.read_utf8_esc()?;
        // luaO_utf8esc
        if x < 0x80 {
            self.buf.push(x as u8);
        } else {
            let mut tmp = [0u8; 8];
            let mut n = 0;
            let mut x = x;
            let mut mfb: u64 = 0x3f;
            loop {
                tmp[n] = (0x80 | (x & 0x3f)) as u8;
                n += 1;
                x >>= 6;
                mfb >>= 1;
                if x <= mfb {
                    break;
                }
            }
            tmp[n] = ((!mfb << 1) | x) as u8;
            n += 1;
            for k in (0..n).rev() {
                self.buf.push(tmp[k]);
            }
        }
        Ok(())
    }

    fn read_dec_esc(&mut self) -> Result<u32, LexError> {
        let mut r: u32 = 0;
        let mut i = 0;
        while i < 3 && is_digit(self.cur) {
            r = 10 * r + (self.cur as u32 - b'0' as u32);
            self.save_and_next();
            i += 1;
        }
        self.esc_check(r <= 255, "decimal escape too large")?;
        let n = self.buf.len();
        self.buf.truncate(n - i);
        Ok(r)
    }

    fn read_string(&mut self, del: i32) -> Result<Tok, LexError> {
        self.save_and_next(); // keep delimiter (for error messages)
        while self.cur != del {
            match self.cur {
                EOZ => return Err(self.error("unfinished string", 2)),
                10 | 13 => return Err(self.error("unfinished string", 1)),
                92 => {
                    // backslash
                    self.save_and_next(); // keep '\\' for error messages
                    let c: i32;
                    match self.cur {
                        EOZ => continue, // will raise an error next loop
                        x if x == b'a' as i32 => c = 7,
                        x if x == b'b' as i32 => c = 8,
                        x if x == b'f' as i32 => c = 12,
                        x if x == b'n' as i32 => c = 10,
                        x if x == b'r' as i32 => c = 13,
                        x if x == b't' as i32 => c = 9,
                        x if x == b'v' as i32 => c = 11,
                        x if x == b'x' as i32 => {
                            let r = self.read_hex_esc()?;
                            self.next_char();
                            self.buf.pop(); // remove '\\'
                            self.buf.push(r as u8);
                            continue;
                        }
                        x if x == b'u' as i32 => {
                            self.utf8_esc()?; // removes the '\\' itself
                            continue;
                        }
                        10 | 13 => {
                            self.inc_line();
                            self.buf.pop();
                            self.buf.push(b'\n');
                            continue;
                        }
                        92 | 34 | 39 => {
                            c = self.cur;
                        }
                        x if x == b'z' as i32 => {
                            self.buf.pop(); // remove '\\'
                            self.next_char(); // skip the 'z'
                            while is_space(self.cur) {
                                if self.cur_is_newline() {
                                    self.inc_line();
                                } else {
                                    self.next_char();
                                }
                            }
                            continue;
                        }
                        _ => {
                            let ok = is_digit(self.cur);
                            self.esc_check(ok, "invalid escape sequence")?;
                            let r = self.read_dec_esc()?;
                            self.buf.pop(); // remove '\\'
                            self.buf.push(r as u8);
                            continue;
                        }
                    }
                    // read_save:
                    self.next_char();
                    self.buf.pop(); // remove '\\'
                    self.buf.push(c as u8);
                }
                _ => self.save_and_next(),
            }
        }
        self.save_and_next(); // skip delimiter
        let s = self.buf[1..self.buf.len() - 1].to_vec();
        Ok(Tok::Str(s))
    }

    /// `llex`: returns the next token; `near` text for it is available via
    /// `token_text`.
    pub fn lex(&mut self) -> Result<Tok, LexError> {
        self.buf.clear();
        loop {
            self.tok_start = self.idx();
            match self.cur {
                10 | 13 => self.inc_line(),
                32 | 12 | 9 | 11 => {
                    while self.pos < self.src.len() && matches!(self.src[self.pos], 32 | 9) {
                        self.pos += 1;
                    }
                    self.next_char();
                }
                45 => {
                    // '-'
                    self.next_char();
                    if self.cur != b'-' as i32 {
                        return Ok(Tok::Char(b'-'));
                    }
                    self.next_char();
                    if self.cur == b'[' as i32 {
                        let sep = self.skip_sep();
                        self.buf.clear();
                        if sep >= 0 {
                            self.read_long_string(false, sep)?;
                            self.buf.clear();
                            continue;
                        }
                    }
                    while !self.cur_is_newline() && self.cur != EOZ {
                        self.next_char();
                    }
                }
                91 => {
                    // '['
                    let sep = self.skip_sep();
                    if sep >= 0 {
                        let s = self.read_long_string(true, sep)?;
                        return Ok(Tok::Str(s.unwrap_or_default()));
                    } else if sep != -1 {
                        return Err(self.error("invalid long string delimiter", 1));
                    }
                    return Ok(Tok::Char(b'['));
                }
                61 => {
                    self.next_char();
                    return Ok(if self.check_next1(b'=') { Tok::Eq } else { Tok::Char(b'=') });
                }
                60 => {
                    self.next_char();
                    return Ok(if self.check_next1(b'=') {
                        Tok::Le
                    } else if self.check_next1(b'<') {
                        Tok::Shl
                    } else {
                        Tok::Char(b'<')
                    });
                }
                62 => {
                    self.next_char();
                    return Ok(if self.check_next1(b'=') {
                        Tok::Ge
                    } else if self.check_next1(b'>') {
                        Tok::Shr
                    } else {
                        Tok::Char(b'>')
                    });
                }
                47 => {
                    self.next_char();
                    return Ok(if self.check_next1(b'/') { Tok::IDiv } else { Tok::Char(b'/') });
                }
                126 => {
                    self.next_char();
                    return Ok(if self.check_next1(b'=') { Tok::Ne } else { Tok::Char(b'~') });
                }
                58 => {
                    self.next_char();
                    return Ok(if self.check_next1(b':') { Tok::DbColon } else { Tok::Char(b':') });
                }
                34 | 39 => {
                    let d = self.cur;
                    return self.read_string(d);
                }
                46 => {
                    // '.'
                    self.save_and_next();
                    if self.check_next1(b'.') {
                        return Ok(if self.check_next1(b'.') { Tok::Dots } else { Tok::Concat });
                    } else if !is_digit(self.cur) {
                        return Ok(Tok::Char(b'.'));
                    } else {
                        return self.read_numeral();
                    }
                }
                c if is_digit(c) => return self.read_numeral(),
                EOZ => return Ok(Tok::Eos),
                c => {
                    if is_lalpha(c) {
                        // scan the identifier directly in the source
                        let start = self.pos - 1;
                        let mut end = self.pos;
                        while end < self.src.len() {
                            let b = self.src[end];
                            if b.is_ascii_alphanumeric() || b == b'_' {
                                end += 1;
                            } else {
                                break;
                            }
                        }
                        self.pos = end;
                        self.next_char();
                        if let Some(t) = reserved(&self.src[start..end]) {
                            return Ok(t);
                        }
                        return Ok(Tok::Name);
                    } else {
                        self.next_char();
                        return Ok(Tok::Char(c as u8));
                    }
                }
            }
        }
    }

    /// index in the source of the current (not yet consumed) character
    #[inline]
    pub fn idx(&self) -> usize {
        if self.cur == EOZ {
            self.src.len()
        } else {
            self.pos - 1
        }
    }

    /// `txtToken`: text used in "near ..." for a token that spans
    /// `start..end` of the source.
    pub fn near_text(&self, t: &Tok, start: usize, end: usize) -> String {
        let end = end.min(self.src.len());
        let start = start.min(end);
        match t {
            Tok::Name | Tok::Flt(_) | Tok::Int(_) => {
                format!("'{}'", String::from_utf8_lossy(&self.src[start..end]))
            }
            Tok::Str(s) => {
                let q = self.src.get(start).copied().unwrap_or(b'"');
                if q == b'"' || q == b'\'' {
                    format!("'{}{}{}'", q as char, String::from_utf8_lossy(s), q as char)
                } else {
                    format!("'{}'", String::from_utf8_lossy(&self.src[start..end]))
                }
            }
            other => token2str(other),
        }
    }

    pub fn span(&self, start: usize, end: usize) -> &'a [u8] {
        &self.src[start.min(self.src.len())..end.min(self.src.len())]
    }

    /// lex one token and report its source span
    pub fn lex_span(&mut self) -> Result<(Tok, usize, usize), LexError> {
        // skip what `lex` would skip is not possible without lexing, so the
        // start is found by lexing and looking at where the token ended:
        // `lex` records the start itself.
        let t = self.lex()?;
        Ok((t, self.tok_start, self.idx()))
    }
}
