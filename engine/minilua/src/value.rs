//! Run-time values, tables (array part + insertion-ordered hash part), closures.

use std::cell::{Cell, OnceCell, RefCell};
use std::rc::Rc;
use std::sync::Arc;

use crate::ast::ChunkInner;
use crate::interp::{Lua, R};

pub type LStr = Rc<[u8]>;
pub type TableRef = Rc<RefCell<Table>>;

pub struct NativeFn {
    pub name: &'static str,
    pub f: fn(&mut Lua, usize) -> R<usize>,
}

/// Native function with private state (used by `string.gmatch`).
pub struct NClosure {
    pub name: &'static str,
    pub f: fn(&mut Lua, usize, &NClosure) -> R<usize>,
    pub up: RefCell<Vec<Value>>,
}

#[derive(Clone)]
pub enum Value {
    Nil,
    Bool(bool),
    Int(i64),
    Float(f64),
    Str(LStr),
    Table(TableRef),
    Func(Rc<Closure>),
    Native(&'static NativeFn),
    NativeC(Rc<NClosure>),
    /// Internal: a captured local variable living in a frame slot. Never
    /// visible to Lua code (every read of a slot dereferences it).
    Cell(Rc<UpCell>),
}

impl Default for Value {
    fn default() -> Self {
        Value::Nil
    }
}

impl Value {
    #[inline]
    pub fn is_nil(&self) -> bool {
        matches!(self, Value::Nil)
    }
    #[inline]
    pub fn truthy(&self) -> bool {
        !matches!(self, Value::Nil | Value::Bool(false))
    }
    pub fn type_name(&self) -> &'static str {
        match self {
            Value::Nil => "nil",
            Value::Bool(_) => "boolean",
            Value::Int(_) | Value::Float(_) => "number",
            Value::Str(_) => "string",
            Value::Table(_) => "table",
            Value::Func(_) | Value::Native(_) | Value::NativeC(_) => "function",
            Value::Cell(_) => "cell",
        }
    }
    pub fn str(s: &[u8]) -> Value {
        Value::Str(Rc::from(s))
    }
    pub fn string(s: String) -> Value {
        Value::Str(Rc::from(s.into_bytes().into_boxed_slice()))
    }
    pub fn bytes(s: Vec<u8>) -> Value {
        Value::Str(Rc::from(s.into_boxed_slice()))
    }
    pub fn is_function(&self) -> bool {
        matches!(self, Value::Func(_) | Value::Native(_) | Value::NativeC(_))
    }
    /// Address used by `tostring` for reference types.
    pub fn addr(&self) -> usize {
        match self {
            Value::Table(t) => Rc::as_ptr(t) as *const u8 as usize,
            Value::Func(c) => Rc::as_ptr(c) as *const u8 as usize,
            Value::Native(n) => *n as *const NativeFn as usize,
            Value::NativeC(n) => Rc::as_ptr(n) as *const u8 as usize,
            _ => 0,
        }
    }
}

/// Raw equality (`lua_rawequal`): int/float compared mathematically.
pub fn raw_equal(a: &Value, b: &Value) -> bool {
    match (a, b) {
        (Value::Nil, Value::Nil) => true,
        (Value::Bool(x), Value::Bool(y)) => x == y,
        (Value::Int(x), Value::Int(y)) => x == y,
        (Value::Float(x), Value::Float(y)) => x == y,
        (Value::Int(x), Value::Float(y)) | (Value::Float(y), Value::Int(x)) => int_eq_float(*x, *y),
        (Value::Str(x), Value::Str(y)) => Rc::ptr_eq(x, y) || x[..] == y[..],
        (Value::Table(x), Value::Table(y)) => Rc::ptr_eq(x, y),
        (Value::Func(x), Value::Func(y)) => Rc::ptr_eq(x, y),
        (Value::Native(x), Value::Native(y)) => std::ptr::eq(*x, *y),
        (Value::NativeC(x), Value::NativeC(y)) => Rc::ptr_eq(x, y),
        _ => false,
    }
}

pub fn int_eq_float(i: i64, f: f64) -> bool {
    // exact: f must be integral and in range
    match crate::numfmt::float_to_int(f, 0) {
        Some(j) => i == j,
        None => false,
    }
}

// ---------------------------------------------------------------------------
// deferred drop: keeps destruction of long chains (linked lists, closure
// chains) from recursing on the native stack.

thread_local! {
    static DROP_DEPTH: Cell<u32> = const { Cell::new(0) };
    static DEFERRED: RefCell<Vec<Value>> = const { RefCell::new(Vec::new()) };
}

const MAX_DROP_DEPTH: u32 = 48;

fn drop_values<I: Iterator<Item = Value>>(vals: I) {
    let d = DROP_DEPTH.with(|c| c.get());
    if d >= MAX_DROP_DEPTH {
        // too deep: park everything that could recurse
        let r = DEFERRED.try_with(|q| {
            if let Ok(mut q) = q.try_borrow_mut() {
                for v in vals {
                    if matches!(v, Value::Table(_) | Value::Func(_) | Value::Cell(_) | Value::NativeC(_)) {
                        q.push(v);
                    }
                }
            }
        });
        let _ = r;
        return;
    }
    DROP_DEPTH.with(|c| c.set(d + 1));
    for v in vals {
        drop(v);
    }
    DROP_DEPTH.with(|c| c.set(d));
    if d == 0 {
        loop {
            let next = DEFERRED.try_with(|q| q.try_borrow_mut().ok().and_then(|mut q| q.pop()));
            match next {
                Ok(Some(v)) => {
                    DROP_DEPTH.with(|c| c.set(1));
                    drop(v);
                    DROP_DEPTH.with(|c| c.set(0));
                }
                _ => break,
            }
        }
    }
}

// ---------------------------------------------------------------------------

pub struct UpCell {
    v: RefCell<Value>,
}

impl UpCell {
    pub fn new(v: Value) -> Rc<UpCell> {
        Rc::new(UpCell { v: RefCell::new(v) })
    }
    #[inline]
    pub fn get(&self) -> Value {
        self.v.borrow().clone()
    }
    #[inline]
    pub fn set(&self, v: Value) {
        let old = std::mem::replace(&mut *self.v.borrow_mut(), v);
        drop(old);
    }
}

impl Drop for UpCell {
    fn drop(&mut self) {
        let v = std::mem::take(self.v.get_mut());
        match v {
            Value::Table(_) | Value::Func(_) | Value::Cell(_) | Value::NativeC(_) => {
                drop_values(std::iter::once(v))
            }
            _ => {}
        }
    }
}

pub struct Closure {
    pub inst: Rc<Instance>,
    pub proto: u32,
    pub upvals: Box<[Rc<UpCell>]>,
}

/// A chunk bound to one Lua state: lazily materialised string constants and
/// per-global-name slot caches.
pub struct Instance {
    pub chunk: Arc<ChunkInner>,
    pub consts: Box<[OnceCell<LStr>]>,
    pub gcache: Box<[Cell<u32>]>,
    pub name_id: u32,
}

impl Instance {
    pub fn new(chunk: Arc<ChunkInner>, name_id: u32) -> Instance {
        let n = chunk.consts.len();
        let mut consts = Vec::with_capacity(n);
        consts.resize_with(n, OnceCell::new);
        Instance {
            chunk,
            consts: consts.into_boxed_slice(),
            gcache: vec![Cell::new(u32::MAX); n].into_boxed_slice(),
            name_id,
        }
    }
    #[inline]
    pub fn const_str(&self, k: u32) -> &LStr {
        self.consts[k as usize].get_or_init(|| Rc::from(&self.chunk.consts[k as usize][..]))
    }
}

// ---------------------------------------------------------------------------
// Table

pub struct Entry {
    pub key: Value,
    pub val: Value,
    pub hash: u32,
}

#[derive(Default)]
pub struct Table {
    pub arr: Vec<Value>,
    pub entries: Vec<Entry>,
    index: Vec<u32>,
    live: u32,
    pub meta: Option<TableRef>,
}

const SMALL: usize = 8;
const EMPTY: u32 = u32::MAX;

#[derive(Debug, Clone, Copy, PartialEq)]
pub enum KeyError {
    Nil,
    NaN,
}

#[inline]
fn hash_bytes(s: &[u8]) -> u32 {
    let mut h: u32 = 0x811C_9DC5 ^ (s.len() as u32);
    for &b in s {
        h = (h ^ b as u32).wrapping_mul(0x0100_0193);
    }
    h
}

#[inline]
fn hash_u64(x: u64) -> u32 {
    (x.wrapping_mul(0x9E37_79B9_7F4A_7C15) >> 32) as u32
}

pub fn hash_value(v: &Value) -> u32 {
    match v {
        Value::Nil => 0,
        Value::Bool(b) => 1 + *b as u32,
        Value::Int(i) => hash_u64(*i as u64),
        Value::Float(f) => hash_u64(f.to_bits() ^ 0x5555),
        Value::Str(s) => hash_bytes(s),
        other => hash_u64(other.addr() as u64),
    }
}

#[inline]
fn key_eq(a: &Value, b: &Value) -> bool {
    match (a, b) {
        (Value::Str(x), Value::Str(y)) => Rc::ptr_eq(x, y) || x[..] == y[..],
        (Value::Int(x), Value::Int(y)) => x == y,
        (Value::Float(x), Value::Float(y)) => x == y,
        (Value::Bool(x), Value::Bool(y)) => x == y,
        (Value::Table(x), Value::Table(y)) => Rc::ptr_eq(x, y),
        (Value::Func(x), Value::Func(y)) => Rc::ptr_eq(x, y),
        (Value::Native(x), Value::Native(y)) => std::ptr::eq(*x, *y),
        (Value::NativeC(x), Value::NativeC(y)) => Rc::ptr_eq(x, y),
        _ => false,
    }
}

impl Table {
    pub fn new() -> Table {
        Table::default()
    }

    pub fn with_capacity(narr: usize, nhash: usize) -> Table {
        let mut t = Table::default();
        t.arr.reserve(narr);
        t.entries.reserve(nhash);
        if nhash > SMALL {
            let mut cap = 16;
            while cap < nhash * 2 + 2 {
                cap *= 2;
            }
            t.index = vec![EMPTY; cap];
        }
        t
    }

    pub fn from_array(mut arr: Vec<Value>) -> Table {
        while matches!(arr.last(), Some(Value::Nil)) {
            arr.pop();
        }
        let mut t = Table::default();
        t.arr = arr;
        t
    }

    /// Border (`#t`).
    #[inline]
    pub fn len(&self) -> i64 {
        self.arr.len() as i64
    }

    pub fn hash_live(&self) -> usize {
        self.live as usize
    }

    #[inline]
    fn find(&self, key: &Value, hash: u32) -> Option<usize> {
        if self.index.is_empty() {
            for (i, e) in self.entries.iter().enumerate() {
                if e.hash == hash && key_eq(&e.key, key) {
                    return Some(i);
                }
            }
            None
        } else {
            let mask = self.index.len() - 1;
            let mut p = hash as usize & mask;
            loop {
                let ix = self.index[p];
                if ix == EMPTY {
                    return None;
                }
                let e = &self.entries[ix as usize];
                if e.hash == hash && key_eq(&e.key, key) {
                    return Some(ix as usize);
                }
                p = (p + 1) & mask;
            }
        }
    }

    #[inline]
    pub fn find_str(&self, s: &[u8]) -> Option<usize> {
        if self.entries.is_empty() {
            return None;
        }
        let hash = hash_bytes(s);
        if self.index.is_empty() {
            for (i, e) in self.entries.iter().enumerate() {
                if e.hash == hash {
                    if let Value::Str(k) = &e.key {
                        if k[..] == *s {
                            return Some(i);
                        }
                    }
                }
            }
            None
        } else {
            let mask = self.index.len() - 1;
            let mut p = hash as usize & mask;
            loop {
                let ix = self.index[p];
                if ix == EMPTY {
                    return None;
                }
                let e = &self.entries[ix as usize];
                if e.hash == hash {
                    if let Value::Str(k) = &e.key {
                        if k[..] == *s {
                            return Some(ix as usize);
                        }
                    }
                }
                p = (p + 1) & mask;
            }
        }
    }

    #[inline]
    pub fn get_str(&self, s: &[u8]) -> Value {
        match self.find_str(s) {
            Some(i) => self.entries[i].val.clone(),
            None => Value::Nil,
        }
    }

    #[inline]
    pub fn get_int(&self, i: i64) -> Value {
        if i >= 1 && (i as u64) <= self.arr.len() as u64 {
            return self.arr[(i - 1) as usize].clone();
        }
        if self.live == 0 {
            return Value::Nil;
        }
        let k = Value::Int(i);
        match self.find(&k, hash_value(&k)) {
            Some(ix) => self.entries[ix].val.clone(),
            None => Value::Nil,
        }
    }

    pub fn get(&self, key: &Value) -> Value {
        match key {
            Value::Int(i) => self.get_int(*i),
            Value::Str(s) => self.get_str(s),
            Value::Nil => Value::Nil,
            Value::Float(f) => match crate::numfmt::float_to_int(*f, 0) {
                Some(i) => self.get_int(i),
                None => {
                    if f.is_nan() || self.live == 0 {
                        Value::Nil
                    } else {
                        match self.find(key, hash_value(key)) {
                            Some(ix) => self.entries[ix].val.clone(),
                            None => Value::Nil,
                        }
                    }
                }
            },
            _ => {
                if self.live == 0 {
                    return Value::Nil;
                }
                match self.find(key, hash_value(key)) {
                    Some(ix) => self.entries[ix].val.clone(),
                    None => Value::Nil,
                }
            }
        }
    }

    fn rebuild_index(&mut self) {
        // compact tombstones
        if (self.live as usize) < self.entries.len() {
            self.entries.retain(|e| !e.val.is_nil());
        }
        let n = self.entries.len();
        if n <= SMALL {
            self.index = Vec::new();
            return;
        }
        let mut cap = 16;
        while cap < n * 2 + 2 {
            cap *= 2;
        }
        let mut index = vec![EMPTY; cap];
        let mask = cap - 1;
        for (i, e) in self.entries.iter().enumerate() {
            let mut p = e.hash as usize & mask;
            while index[p] != EMPTY {
                p = (p + 1) & mask;
            }
            index[p] = i as u32;
        }
        self.index = index;
    }

    /// returns the index of the entry (usize::MAX if nothing was stored)
    fn hash_set(&mut self, key: Value, val: Value) -> usize {
        let hash = hash_value(&key);
        if let Some(ix) = self.find(&key, hash) {
            let e = &mut self.entries[ix];
            let was_nil = e.val.is_nil();
            let is_nil = val.is_nil();
            e.val = val;
            if was_nil && !is_nil {
                self.live += 1;
            } else if !was_nil && is_nil {
                self.live -= 1;
            }
            return ix;
        }
        if val.is_nil() {
            return usize::MAX;
        }
        // new key
        let need_rebuild = if self.index.is_empty() {
            self.entries.len() >= SMALL
        } else {
            (self.entries.len() + 1) * 2 > self.index.len()
        };
        self.entries.push(Entry { key, val, hash });
        self.live += 1;
        if need_rebuild {
            let had_tombstones = (self.live as usize) < self.entries.len();
            self.rebuild_index();
            if had_tombstones {
                // entries were compacted: look the key up again
                let k = self.entries.len() - 1;
                return k;
            }
        } else if !self.index.is_empty() {
            let mask = self.index.len() - 1;
            let mut p = hash as usize & mask;
            while self.index[p] != EMPTY {
                p = (p + 1) & mask;
            }
            self.index[p] = (self.entries.len() - 1) as u32;
        }
        self.entries.len() - 1
    }

    pub fn set_int(&mut self, i: i64, val: Value) {
        let n = self.arr.len();
        if i >= 1 && (i as u64) <= n as u64 {
            let is_nil = val.is_nil();
            self.arr[(i - 1) as usize] = val;
            if is_nil && i as usize == n {
                while matches!(self.arr.last(), Some(Value::Nil)) {
                    self.arr.pop();
                }
            }
            return;
        }
        if i as u64 == n as u64 + 1 && i >= 1 && !val.is_nil() {
            if self.live > 0 {
                let k = Value::Int(i);
                if let Some(ix) = self.find(&k, hash_value(&k)) {
                    if !self.entries[ix].val.is_nil() {
                        self.entries[ix].val = Value::Nil;
                        self.live -= 1;
                    }
                }
            }
            self.arr.push(val);
            // migrate following integer keys from the hash part
            while self.live > 0 {
                let k = Value::Int(self.arr.len() as i64 + 1);
                match self.find(&k, hash_value(&k)) {
                    Some(ix) if !self.entries[ix].val.is_nil() => {
                        let v = std::mem::take(&mut self.entries[ix].val);
                        self.live -= 1;
                        self.arr.push(v);
                    }
                    _ => break,
                }
            }
            return;
        }
        self.hash_set(Value::Int(i), val);
    }

    /// Raw set. The key is normalised (integral floats become integers).
    pub fn set(&mut self, key: Value, val: Value) -> Result<(), KeyError> {
        match key {
            Value::Int(i) => {
                self.set_int(i, val);
                Ok(())
            }
            Value::Nil => Err(KeyError::Nil),
            Value::Float(f) => {
                if f.is_nan() {
                    return Err(KeyError::NaN);
                }
                match crate::numfmt::float_to_int(f, 0) {
                    Some(i) => self.set_int(i, val),
                    None => {
                        self.hash_set(Value::Float(f), val);
                    }
                }
                Ok(())
            }
            k => {
                self.hash_set(k, val);
                Ok(())
            }
        }
    }

    /// overwrite the value of an existing hash entry (by entry index)
    pub fn set_entry_val(&mut self, ix: usize, val: Value) {
        let e = &mut self.entries[ix];
        let was_nil = e.val.is_nil();
        let is_nil = val.is_nil();
        e.val = val;
        if was_nil && !is_nil {
            self.live += 1;
        } else if !was_nil && is_nil {
            self.live -= 1;
        }
    }

    pub fn set_str(&mut self, key: &LStr, val: Value) -> usize {
        self.hash_set(Value::Str(key.clone()), val)
    }

    /// `next`: Ok(None) at the end, Err(()) for an invalid key.
    pub fn next(&self, key: &Value) -> Result<Option<(Value, Value)>, ()> {
        let mut ai: usize; // next array index (0-based) to look at
        let mut ei: usize = 0;
        match key {
            Value::Nil => ai = 0,
            _ => {
                let ik = match key {
                    Value::Int(i) => Some(*i),
                    Value::Float(f) => crate::numfmt::float_to_int(*f, 0),
                    _ => None,
                };
                match ik {
                    Some(i) if i >= 1 && (i as u64) <= self.arr.len() as u64 => ai = i as usize,
                    _ => {
                        ai = self.arr.len();
                        let k = match ik {
                            Some(i) => Value::Int(i),
                            None => key.clone(),
                        };
                        match self.find(&k, hash_value(&k)) {
                            Some(ix) => ei = ix + 1,
                            None => {
                                // an integer key beyond the array part that is no longer
                                // present: it was an array element removed (and trimmed)
                                // during the traversal; continue with the hash part.
                                if ik.is_some() {
                                    ei = 0;
                                } else {
                                    return Err(());
                                }
                            }
                        }
                    }
                }
            }
        }
        while ai < self.arr.len() {
            if !self.arr[ai].is_nil() {
                return Ok(Some((Value::Int(ai as i64 + 1), self.arr[ai].clone())));
            }
            ai += 1;
        }
        while ei < self.entries.len() {
            let e = &self.entries[ei];
            if !e.val.is_nil() {
                return Ok(Some((e.key.clone(), e.val.clone())));
            }
            ei += 1;
        }
        Ok(None)
    }

    /// Remove everything (used when a state is torn down, to break cycles).
    pub fn clear_all(&mut self) -> (Vec<Value>, Vec<Entry>, Option<TableRef>) {
        self.live = 0;
        self.index = Vec::new();
        (std::mem::take(&mut self.arr), std::mem::take(&mut self.entries), self.meta.take())
    }
}

impl Drop for Table {
    fn drop(&mut self) {
        if self.arr.is_empty() && self.entries.is_empty() && self.meta.is_none() {
            return;
        }
        let arr = std::mem::take(&mut self.arr);
        let entries = std::mem::take(&mut self.entries);
        let meta = self.meta.take();
        drop_values(
            arr.into_iter()
                .chain(entries.into_iter().flat_map(|e| [e.key, e.val]))
                .chain(meta.into_iter().map(Value::Table)),
        );
    }
}

pub fn new_table_ref(t: Table) -> TableRef {
    Rc::new(RefCell::new(t))
}
