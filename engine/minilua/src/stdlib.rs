//! Standard library subset: base, table, math, os, io, package.

use std::rc::Rc;

use crate::interp::{ErrorKind, Lua, LuaErrInner, R};
use crate::numfmt::{float_to_int, str2num};
use crate::ops::{tofloat, tointeger, tonumber_value, tostring_plain};
use crate::value::*;

struct SyncNil(Value);
// SAFETY: the value is `Nil` forever; it holds no `Rc`.
unsafe impl Sync for SyncNil {}
static NIL: SyncNil = SyncNil(Value::Nil);

// ---------------------------------------------------------------------------
// argument helpers (lauxlib)

impl Lua {
    #[inline]
    pub fn nargs(&self, base: usize) -> usize {
        self.stack.len() - base
    }

    #[inline]
    pub fn arg(&self, base: usize, i: usize) -> &Value {
        self.stack.get(base + i).unwrap_or(&NIL.0)
    }

    #[inline]
    pub fn has_arg(&self, base: usize, i: usize) -> bool {
        base + i < self.stack.len()
    }

    pub fn ret0(&mut self, base: usize) -> R<usize> {
        self.stack.truncate(base);
        Ok(0)
    }

    pub fn ret1(&mut self, base: usize, v: Value) -> R<usize> {
        self.stack.truncate(base);
        self.stack.push(v);
        Ok(1)
    }

    pub fn ret2(&mut self, base: usize, a: Value, b: Value) -> R<usize> {
        self.stack.truncate(base);
        self.stack.push(a);
        self.stack.push(b);
        Ok(2)
    }

    pub fn retn(&mut self, base: usize, vals: Vec<Value>) -> R<usize> {
        self.stack.truncate(base);
        let n = vals.len();
        self.stack.extend(vals);
        Ok(n)
    }

    /// `luaL_typename` with "no value"
    pub fn arg_typename(&self, base: usize, i: usize) -> &'static str {
        if self.has_arg(base, i) {
            self.arg(base, i).type_name()
        } else {
            "no value"
        }
    }

    /// `luaL_argerror`
    pub fn arg_error(&self, i: usize, fname: &str, msg: &str) -> Box<LuaErrInner> {
        let mut n = i + 1;
        let name: String = match &self.call_name {
            Some(s) => String::from_utf8_lossy(s).into_owned(),
            None => fname.to_string(),
        };
        if self.call_is_method && self.call_name.is_some() {
            n -= 1;
            if n == 0 {
                return self.native_error(format!("calling '{}' on bad self ({})", name, msg));
            }
        }
        self.native_error(format!("bad argument #{} to '{}' ({})", n, name, msg))
    }

    pub fn type_arg_error(&self, base: usize, i: usize, fname: &str, expected: &str) -> Box<LuaErrInner> {
        let got = self.arg_typename(base, i);
        self.arg_error(i, fname, &format!("{} expected, got {}", expected, got))
    }

    pub fn check_any(&self, base: usize, i: usize, fname: &str) -> R<()> {
        if !self.has_arg(base, i) {
            return Err(self.arg_error(i, fname, "value expected"));
        }
        Ok(())
    }

    pub fn check_table(&self, base: usize, i: usize, fname: &str) -> R<TableRef> {
        match self.arg(base, i) {
            Value::Table(t) => Ok(t.clone()),
            _ => Err(self.type_arg_error(base, i, fname, "table")),
        }
    }

    pub fn check_num(&self, base: usize, i: usize, fname: &str) -> R<f64> {
        match tofloat(self.arg(base, i)) {
            Some(f) => Ok(f),
            None => Err(self.type_arg_error(base, i, fname, "number")),
        }
    }

    /// number keeping its subtype
    pub fn check_number(&self, base: usize, i: usize, fname: &str) -> R<Value> {
        match tonumber_value(self.arg(base, i)) {
            Some(v) => Ok(v),
            None => Err(self.type_arg_error(base, i, fname, "number")),
        }
    }

    pub fn check_int(&self, base: usize, i: usize, fname: &str) -> R<i64> {
        let v = self.arg(base, i);
        match tointeger(v) {
            Some(n) => Ok(n),
            None => {
                if tofloat(v).is_some() {
                    Err(self.arg_error(i, fname, "number has no integer representation"))
                } else {
                    Err(self.type_arg_error(base, i, fname, "number"))
                }
            }
        }
    }

    pub fn opt_int(&self, base: usize, i: usize, fname: &str, def: i64) -> R<i64> {
        if self.arg(base, i).is_nil() {
            Ok(def)
        } else {
            self.check_int(base, i, fname)
        }
    }

    /// `luaL_checklstring`: numbers are converted
    pub fn check_str(&self, base: usize, i: usize, fname: &str) -> R<LStr> {
        match self.arg(base, i) {
            Value::Str(s) => Ok(s.clone()),
            v @ (Value::Int(_) | Value::Float(_)) => Ok(Rc::from(tostring_plain(v).into_bytes().into_boxed_slice())),
            _ => Err(self.type_arg_error(base, i, fname, "string")),
        }
    }

    pub fn opt_str(&self, base: usize, i: usize, fname: &str) -> R<Option<LStr>> {
        if self.arg(base, i).is_nil() {
            Ok(None)
        } else {
            self.check_str(base, i, fname).map(Some)
        }
    }

    pub fn write_out(&mut self, b: &[u8]) {
        self.out.extend_from_slice(b);
        if self.stream_stdout && self.out.len() >= 1 << 16 {
            self.flush_stdout();
        }
    }

    pub fn flush_stdout(&mut self) {
        use std::io::Write;
        if self.stream_stdout && !self.out.is_empty() {
            let so = std::io::stdout();
            let mut l = so.lock();
            let _ = l.write_all(&self.out);
            let _ = l.flush();
            self.out.clear();
        }
    }

    pub fn set_global_value(&mut self, name: &str, v: Value) {
        let k: LStr = Rc::from(name.as_bytes());
        self.globals.borrow_mut().set_str(&k, v);
    }
}

macro_rules! native {
    ($name:expr, $f:expr) => {{
        static N: NativeFn = NativeFn { name: $name, f: $f };
        Value::Native(&N)
    }};
}
pub(crate) use native;

thread_local! {
    /// library key strings are immutable and can be shared by all states of a thread
    static KEYS: std::cell::RefCell<std::collections::HashMap<(usize, usize), LStr, std::hash::BuildHasherDefault<crate::parser::Fnv>>> =
        std::cell::RefCell::new(Default::default());
}

pub fn reg(t: &mut Table, name: &'static str, v: Value) {
    let id = (name.as_ptr() as usize, name.len());
    let k: LStr = KEYS.with(|m| m.borrow_mut().entry(id).or_insert_with(|| Rc::from(name.as_bytes())).clone());
    t.set_str(&k, v);
}

// ---------------------------------------------------------------------------
// base library

fn b_print(l: &mut Lua, base: usize) -> R<usize> {
    let n = l.nargs(base);
    let mut line: Vec<u8> = Vec::new();
    // 5.3's print calls the *global* `tostring` for every argument
    let ts = l.globals.borrow().get_str(b"tostring");
    let builtin = matches!(&ts, Value::Native(nf) if nf.name == "tostring");
    for i in 0..n {
        let v = l.arg(base, i).clone();
        let s = if builtin {
            match &v {
                Value::Str(s) => s.clone(),
                _ => l.tostring(&v)?,
            }
        } else {
            match l.call1(ts.clone(), &[v])? {
                Value::Str(s) => s,
                r @ (Value::Int(_) | Value::Float(_)) => Rc::from(tostring_plain(&r).into_bytes().into_boxed_slice()),
                _ => return Err(l.native_error("'tostring' must return a string to 'print'")),
            }
        };
        if i > 0 {
            line.push(b'\t');
        }
        line.extend_from_slice(&s);
    }
    line.push(b'\n');
    l.write_out(&line);
    l.ret0(base)
}

fn b_type(l: &mut Lua, base: usize) -> R<usize> {
    l.check_any(base, 0, "type")?;
    let t = l.arg(base, 0).type_name();
    l.ret1(base, Value::str(t.as_bytes()))
}

fn b_tostring(l: &mut Lua, base: usize) -> R<usize> {
    l.check_any(base, 0, "tostring")?;
    let v = l.arg(base, 0).clone();
    let s = l.tostring(&v)?;
    l.ret1(base, Value::Str(s))
}

fn b_tonumber(l: &mut Lua, base: usize) -> R<usize> {
    if l.arg(base, 1).is_nil() {
        // standard conversion
        let r = match l.arg(base, 0) {
            v @ (Value::Int(_) | Value::Float(_)) => v.clone(),
            Value::Str(s) => str2num(s).unwrap_or(Value::Nil),
            _ => {
                l.check_any(base, 0, "tonumber")?;
                Value::Nil
            }
        };
        return l.ret1(base, r);
    }
    let b = l.check_int(base, 1, "tonumber")?;
    let s = match l.arg(base, 0) {
        Value::Str(s) => s.clone(),
        _ => return Err(l.type_arg_error(base, 0, "tonumber", "string")),
    };
    if !(2..=36).contains(&b) {
        return Err(l.arg_error(1, "tonumber", "base out of range"));
    }
    // l_str2int with base
    let is_space = |c: u8| matches!(c, b' ' | b'\t' | b'\n' | b'\r' | 0x0b | 0x0c);
    let mut i = 0;
    let n = s.len();
    while i < n && is_space(s[i]) {
        i += 1;
    }
    let mut neg = false;
    if i < n && s[i] == b'-' {
        neg = true;
        i += 1;
    } else if i < n && s[i] == b'+' {
        i += 1;
    }
    let mut acc: i64 = 0;
    let mut any = false;
    while i < n && s[i].is_ascii_alphanumeric() {
        let d = if s[i].is_ascii_digit() { (s[i] - b'0') as i64 } else { (s[i].to_ascii_uppercase() - b'A') as i64 + 10 };
        if d >= b {
            break;
        }
        acc = acc.wrapping_mul(b).wrapping_add(d);
        any = true;
        i += 1;
    }
    while i < n && is_space(s[i]) {
        i += 1;
    }
    if !any || i != n {
        return l.ret1(base, Value::Nil);
    }
    l.ret1(base, Value::Int(if neg { acc.wrapping_neg() } else { acc }))
}

fn ipairs_aux(l: &mut Lua, base: usize) -> R<usize> {
    let i = l.check_int(base, 1, "ipairs")?.wrapping_add(1);
    let t = l.arg(base, 0).clone();
    let v = match &t {
        Value::Table(tb) => {
            let v = tb.borrow().get_int(i);
            if v.is_nil() && tb.borrow().meta.is_some() {
                l.index_value(t.clone(), &Value::Int(i))?
            } else {
                v
            }
        }
        _ => l.index_value(t.clone(), &Value::Int(i))?,
    };
    if v.is_nil() {
        l.ret1(base, Value::Nil)
    } else {
        l.ret2(base, Value::Int(i), v)
    }
}

fn b_ipairs(l: &mut Lua, base: usize) -> R<usize> {
    l.check_any(base, 0, "ipairs")?;
    let t = l.arg(base, 0).clone();
    if l.compat_ipairs {
        let h = l.metamethod(&t, b"__ipairs");
        if !h.is_nil() {
            l.stack.truncate(base);
            l.stack.push(t);
            l.call_name = None;
            let n = l.call_value(h, base)?;
            l.stack.resize(base + 3.max(n), Value::Nil);
            l.stack.truncate(base + 3);
            return Ok(3);
        }
    }
    l.retn(base, vec![native!("ipairs_aux", ipairs_aux), t, Value::Int(0)])
}

pub fn b_next(l: &mut Lua, base: usize) -> R<usize> {
    let t = l.check_table(base, 0, "next")?;
    let r = t.borrow().next(l.arg(base, 1));
    match r {
        Ok(Some((k, v))) => l.ret2(base, k, v),
        Ok(None) => l.ret1(base, Value::Nil),
        Err(()) => Err(l.rt_error("invalid key to 'next'")),
    }
}

fn b_pairs(l: &mut Lua, base: usize) -> R<usize> {
    l.check_any(base, 0, "pairs")?;
    let t = l.arg(base, 0).clone();
    let h = l.metamethod(&t, b"__pairs");
    if h.is_nil() {
        return l.retn(base, vec![native!("next", b_next), t, Value::Nil]);
    }
    l.stack.truncate(base);
    l.stack.push(t);
    l.call_name = None;
    let n = l.call_value(h, base)?;
    l.stack.resize(base + 3.max(n), Value::Nil);
    l.stack.truncate(base + 3);
    Ok(3)
}

fn b_rawget(l: &mut Lua, base: usize) -> R<usize> {
    let t = l.check_table(base, 0, "rawget")?;
    l.check_any(base, 1, "rawget")?;
    let v = t.borrow().get(l.arg(base, 1));
    l.ret1(base, v)
}

fn b_rawset(l: &mut Lua, base: usize) -> R<usize> {
    let t = l.check_table(base, 0, "rawset")?;
    l.check_any(base, 1, "rawset")?;
    l.check_any(base, 2, "rawset")?;
    let k = l.arg(base, 1).clone();
    let v = l.arg(base, 2).clone();
    let r = t.borrow_mut().set(k, v);
    if let Err(e) = r {
        return Err(match e {
            KeyError::Nil => l.native_error("table index is nil"),
            KeyError::NaN => l.native_error("table index is NaN"),
        });
    }
    l.ret1(base, Value::Table(t))
}

fn b_rawequal(l: &mut Lua, base: usize) -> R<usize> {
    l.check_any(base, 0, "rawequal")?;
    l.check_any(base, 1, "rawequal")?;
    let r = raw_equal(l.arg(base, 0), l.arg(base, 1));
    l.ret1(base, Value::Bool(r))
}

fn b_rawlen(l: &mut Lua, base: usize) -> R<usize> {
    let n = match l.arg(base, 0) {
        Value::Table(t) => t.borrow().len(),
        Value::Str(s) => s.len() as i64,
        _ => return Err(l.arg_error(0, "rawlen", "table or string expected")),
    };
    l.ret1(base, Value::Int(n))
}

fn b_setmetatable(l: &mut Lua, base: usize) -> R<usize> {
    let t = l.check_table(base, 0, "setmetatable")?;
    let m = match l.arg(base, 1) {
        Value::Nil if l.has_arg(base, 1) => None,
        Value::Table(m) => Some(m.clone()),
        _ => return Err(l.arg_error(1, "setmetatable", "nil or table expected")),
    };
    if !l.metamethod(&Value::Table(t.clone()), b"__metatable").is_nil() {
        return Err(l.native_error("cannot change a protected metatable"));
    }
    t.borrow_mut().meta = m;
    l.ret1(base, Value::Table(t))
}

fn b_getmetatable(l: &mut Lua, base: usize) -> R<usize> {
    l.check_any(base, 0, "getmetatable")?;
    let v = l.arg(base, 0).clone();
    match l.get_metatable(&v) {
        None => l.ret1(base, Value::Nil),
        Some(m) => {
            let p = m.borrow().get_str(b"__metatable");
            if !p.is_nil() {
                l.ret1(base, p)
            } else {
                l.ret1(base, Value::Table(m))
            }
        }
    }
}

fn b_select(l: &mut Lua, base: usize) -> R<usize> {
    let n = l.nargs(base) as i64;
    if let Value::Str(s) = l.arg(base, 0) {
        if &s[..] == b"#" {
            return l.ret1(base, Value::Int(n - 1));
        }
    }
    let mut i = l.check_int(base, 0, "select")?;
    if i < 0 {
        i += n;
    } else if i > n {
        i = n;
    }
    if i < 1 {
        return Err(l.arg_error(0, "select", "index out of range"));
    }
    let vals: Vec<Value> = l.stack[base + i as usize..].to_vec();
    l.retn(base, vals)
}

fn error_with_level(l: &mut Lua, msg: Value, level: i64) -> Box<LuaErrInner> {
    let v = match &msg {
        Value::Str(s) if level > 0 => {
            let mut m = l.where_(level as usize).into_bytes();
            m.extend_from_slice(s);
            Value::bytes(m)
        }
        _ => msg,
    };
    l.make_error(ErrorKind::Runtime, v)
}

fn b_error(l: &mut Lua, base: usize) -> R<usize> {
    let level = l.opt_int(base, 1, "error", 1)?;
    let msg = l.arg(base, 0).clone();
    Err(error_with_level(l, msg, level))
}

fn b_assert(l: &mut Lua, base: usize) -> R<usize> {
    if l.arg(base, 0).truthy() {
        return Ok(l.nargs(base));
    }
    l.check_any(base, 0, "assert")?;
    let msg = if l.has_arg(base, 1) { l.arg(base, 1).clone() } else { Value::str(b"assertion failed!") };
    // 5.3: "return luaB_error(L)" - position is added to string messages
    Err(error_with_level(l, msg, 1))
}

fn b_pcall(l: &mut Lua, base: usize) -> R<usize> {
    l.check_any(base, 0, "pcall")?;
    let f = l.arg(base, 0).clone();
    let saved_ci = l.ci.len();
    l.call_name = None;
    match l.call_value(f, base + 1) {
        Ok(n) => {
            l.stack[base] = Value::Bool(true);
            Ok(n + 1)
        }
        Err(e) => {
            if matches!(e.kind, ErrorKind::Budget | ErrorKind::Exit) {
                return Err(e);
            }
            l.ci.truncate(saved_ci);
            l.ret2(base, Value::Bool(false), e.value)
        }
    }
}

fn b_xpcall(l: &mut Lua, base: usize) -> R<usize> {
    if !l.arg(base, 1).is_function() {
        return Err(l.type_arg_error(base, 1, "xpcall", "function"));
    }
    let f = l.arg(base, 0).clone();
    let h = l.arg(base, 1).clone();
    let saved_ci = l.ci.len();
    // arguments start at base + 2
    l.call_name = None;
    match l.call_value(f, base + 2) {
        Ok(n) => {
            // results at base+2.. ; produce true, results
            l.stack[base + 1] = Value::Bool(true);
            l.stack.remove(base);
            Ok(n + 1)
        }
        Err(e) => {
            if matches!(e.kind, ErrorKind::Budget | ErrorKind::Exit) {
                return Err(e);
            }
            // the handler runs at the point of the error in real Lua; here
            // it runs after unwinding (only tracebacks could tell)
            l.ci.truncate(saved_ci);
            l.stack.truncate(base);
            let r = match l.call1(h, &[e.value]) {
                Ok(v) => v,
                Err(e2) => {
                    if matches!(e2.kind, ErrorKind::Budget | ErrorKind::Exit) {
                        return Err(e2);
                    }
                    l.ci.truncate(saved_ci);
                    e2.value
                }
            };
            l.ret2(base, Value::Bool(false), r)
        }
    }
}

pub fn chunk_display_name(chunkname: &[u8]) -> String {
    // luaO_chunkid, LUA_IDSIZE 60
    const IDSIZE: usize = 60;
    let s = String::from_utf8_lossy(chunkname).into_owned();
    if let Some(r) = s.strip_prefix('=') {
        return r.chars().take(IDSIZE - 1).collect();
    }
    if let Some(r) = s.strip_prefix('@') {
        if r.len() < IDSIZE {
            return r.to_string();
        }
        let tail: String = r.chars().rev().take(IDSIZE - 4).collect::<Vec<_>>().into_iter().rev().collect();
        return format!("...{}", tail);
    }
    // [string "..."]
    let first_line = s.split('\n').next().unwrap_or("");
    let avail = IDSIZE - 15; // [string "  ..."] + NUL
    if first_line.len() == s.len() && s.len() <= avail {
        format!("[string \"{}\"]", s)
    } else {
        let cut: String = first_line.chars().take(avail).collect();
        format!("[string \"{}...\"]", cut)
    }
}

fn b_load(l: &mut Lua, base: usize) -> R<usize> {
    let src: Vec<u8> = match l.arg(base, 0).clone() {
        Value::Str(s) => s.to_vec(),
        f if f.is_function() => {
            let mut acc = Vec::new();
            loop {
                let piece = l.call1(f.clone(), &[])?;
                match piece {
                    Value::Nil => break,
                    Value::Str(s) => {
                        if s.is_empty() {
                            break;
                        }
                        acc.extend_from_slice(&s);
                    }
                    _ => return Err(l.native_error("reader function must return a string")),
                }
            }
            acc
        }
        _ => return Err(l.type_arg_error(base, 0, "load", "string")),
    };
    let name = match l.arg(base, 1) {
        Value::Str(s) => chunk_display_name(s),
        _ => match l.arg(base, 0) {
            Value::Str(s) => chunk_display_name(s),
            _ => "=(load)".trim_start_matches('=').to_string(),
        },
    };
    if let Value::Str(m) = l.arg(base, 2) {
        if !m.contains(&b't') {
            let msg = format!("attempt to load a text chunk (mode is '{}')", String::from_utf8_lossy(m));
            return l.ret2(base, Value::Nil, Value::string(msg));
        }
    }
    if src.first() == Some(&0x1b) {
        let msg = format!("{}: binary chunks are not supported", name);
        return l.ret2(base, Value::Nil, Value::string(msg));
    }
    match crate::load_inner(&src, &name, false) {
        Ok(chunk) => {
            let cl = l.load_main(chunk);
            if l.has_arg(base, 3) {
                // custom environment: not supported (globals are not looked up through _ENV)
                cl.upvals[0].set(l.arg(base, 3).clone());
            }
            l.ret1(base, Value::Func(cl))
        }
        Err(e) => {
            let msg = format!("{}:{}: {}", name, e.line, e.msg);
            l.ret2(base, Value::Nil, Value::string(msg))
        }
    }
}

fn b_require(l: &mut Lua, base: usize) -> R<usize> {
    let name = l.check_str(base, 0, "require")?;
    let pkg = l.globals.borrow().get_str(b"package");
    let loaded = match &pkg {
        Value::Table(p) => p.borrow().get_str(b"loaded"),
        _ => Value::Nil,
    };
    if let Value::Table(ld) = &loaded {
        let v = ld.borrow().get_str(&name);
        if v.truthy() {
            return l.ret1(base, v);
        }
    }
    // package.preload
    let preload = match &pkg {
        Value::Table(p) => p.borrow().get_str(b"preload"),
        _ => Value::Nil,
    };
    let mut result = Value::Nil;
    let mut found = false;
    if let Value::Table(pl) = &preload {
        let f = pl.borrow().get_str(&name);
        if !f.is_nil() {
            result = l.call1(f, &[Value::Str(name.clone())])?;
            found = true;
        }
    }
    if !found {
        let sname = String::from_utf8_lossy(&name).into_owned();
        let mut h = l.require_handler.take();
        let r = match h.as_mut() {
            Some(f) => f(&sname),
            None => Err(format!(
                "module '{}' not found:\n\tno field package.preload['{}']\n\tno file './{}.lua'",
                sname, sname, sname
            )),
        };
        if l.require_handler.is_none() {
            l.require_handler = h;
        }
        if let Err(m) = r {
            return Err(l.native_error(m));
        }
    }
    let stored = if result.is_nil() { Value::Bool(true) } else { result };
    if let Value::Table(ld) = &loaded {
        let cur = ld.borrow().get_str(&name);
        if cur.is_nil() {
            ld.borrow_mut().set_str(&name, stored.clone());
        } else {
            return l.ret1(base, cur);
        }
    }
    l.ret1(base, stored)
}

fn b_collectgarbage(l: &mut Lua, base: usize) -> R<usize> {
    let opt = match l.arg(base, 0) {
        Value::Str(s) => s.to_vec(),
        Value::Nil => b"collect".to_vec(),
        _ => return Err(l.type_arg_error(base, 0, "collectgarbage", "string")),
    };
    match &opt[..] {
        b"count" => l.ret2(base, Value::Float(0.0), Value::Int(0)),
        b"step" | b"isrunning" => l.ret1(base, Value::Bool(true)),
        b"collect" | b"stop" | b"restart" | b"setpause" | b"setstepmul" | b"incremental" | b"generational" => {
            l.ret1(base, Value::Int(0))
        }
        _ => {
            let m = format!("invalid option '{}'", String::from_utf8_lossy(&opt));
            Err(l.arg_error(0, "collectgarbage", &m))
        }
    }
}

// ---------------------------------------------------------------------------
// table library

/// length honouring `__len` (luaL_len)
fn aux_len(l: &mut Lua, t: &Value) -> R<i64> {
    match l.len_value(t)? {
        Value::Int(i) => Ok(i),
        v => match tointeger(&v) {
            Some(i) => Ok(i),
            None => Err(l.native_error("object length is not an integer")),
        },
    }
}

fn plain_table(t: &TableRef) -> bool {
    t.borrow().meta.is_none()
}

fn geti(l: &mut Lua, t: &TableRef, i: i64) -> R<Value> {
    l.tick()?;
    let v = t.borrow().get_int(i);
    if v.is_nil() && !plain_table(t) {
        return l.index_value(Value::Table(t.clone()), &Value::Int(i));
    }
    Ok(v)
}

fn seti(l: &mut Lua, t: &TableRef, i: i64, v: Value) -> R<()> {
    if plain_table(t) {
        t.borrow_mut().set_int(i, v);
        Ok(())
    } else {
        l.set_index_value(Value::Table(t.clone()), Value::Int(i), v)
    }
}

fn t_insert(l: &mut Lua, base: usize) -> R<usize> {
    let t = l.check_table(base, 0, "insert")?;
    let tv = Value::Table(t.clone());
    let e = aux_len(l, &tv)?.wrapping_add(1);
    match l.nargs(base) {
        2 => {
            let v = l.arg(base, 1).clone();
            seti(l, &t, e, v)?;
        }
        3 => {
            let pos = l.check_int(base, 1, "insert")?;
            if pos < 1 || pos > e {
                return Err(l.arg_error(1, "insert", "position out of bounds"));
            }
            let v = l.arg(base, 2).clone();
            l.tick_n(((e - pos) / 8) as u64)?;
            let fast = plain_table(&t) && !v.is_nil() && {
                let tb = t.borrow();
                e - 1 == tb.arr.len() as i64 && tb.hash_live() == 0
            };
            if fast {
                t.borrow_mut().arr.insert((pos - 1) as usize, v);
            } else {
                let mut i = e;
                while i > pos {
                    let x = geti(l, &t, i - 1)?;
                    seti(l, &t, i, x)?;
                    i -= 1;
                }
                seti(l, &t, pos, v)?;
            }
        }
        _ => return Err(l.native_error("wrong number of arguments to 'insert'")),
    }
    l.ret0(base)
}

fn t_remove(l: &mut Lua, base: usize) -> R<usize> {
    let t = l.check_table(base, 0, "remove")?;
    let tv = Value::Table(t.clone());
    let size = aux_len(l, &tv)?;
    let mut pos = l.opt_int(base, 1, "remove", size)?;
    if pos != size {
        // validate 'pos' if given (5.3 reports it against argument #1)
        let ok = (pos as u64).wrapping_sub(1) <= size as u64;
        if !ok {
            return Err(l.arg_error(0, "remove", "position out of bounds"));
        }
    }
    let v = geti(l, &t, pos)?;
    if pos >= 1 && pos <= size {
        l.tick_n(((size - pos) / 8) as u64)?;
    }
    let fast = plain_table(&t) && pos >= 1 && pos <= size && size == t.borrow().arr.len() as i64;
    if fast {
        let mut tb = t.borrow_mut();
        tb.arr.remove((pos - 1) as usize);
        while matches!(tb.arr.last(), Some(Value::Nil)) {
            tb.arr.pop();
        }
    } else {
        while pos < size {
            let x = geti(l, &t, pos + 1)?;
            seti(l, &t, pos, x)?;
            pos += 1;
        }
        seti(l, &t, pos, Value::Nil)?;
    }
    l.ret1(base, v)
}

fn t_unpack(l: &mut Lua, base: usize) -> R<usize> {
    let t = l.arg(base, 0).clone();
    let i = l.opt_int(base, 1, "unpack", 1)?;
    let e = if l.arg(base, 2).is_nil() { aux_len(l, &t)? } else { l.check_int(base, 2, "unpack")? };
    if i > e {
        return l.ret0(base);
    }
    let n = (e as i128 - i as i128) as u128;
    if n >= 1_000_000 {
        return Err(l.native_error("too many results to unpack"));
    }
    let mut out = Vec::with_capacity(n as usize + 1);
    let mut k = i;
    loop {
        let v = match &t {
            Value::Table(tb) => geti(l, tb, k)?,
            _ => l.index_value(t.clone(), &Value::Int(k))?,
        };
        out.push(v);
        if k == e {
            break;
        }
        k += 1;
    }
    l.retn(base, out)
}

fn t_pack(l: &mut Lua, base: usize) -> R<usize> {
    let vals: Vec<Value> = l.stack.drain(base..).collect();
    let n = vals.len() as i64;
    let mut t = Table::from_array(vals);
    let k: LStr = Rc::from(&b"n"[..]);
    t.set_str(&k, Value::Int(n));
    let t = l.new_table(t);
    l.ret1(base, Value::Table(t))
}

fn t_concat(l: &mut Lua, base: usize) -> R<usize> {
    let t = l.check_table(base, 0, "concat")?;
    let sep = l.opt_str(base, 1, "concat")?;
    let i = l.opt_int(base, 2, "concat", 1)?;
    let tv = Value::Table(t.clone());
    let last = if l.arg(base, 3).is_nil() { aux_len(l, &tv)? } else { l.check_int(base, 3, "concat")? };
    let mut out: Vec<u8> = Vec::new();
    let mut k = i;
    while k <= last {
        let v = geti(l, &t, k)?;
        match &v {
            Value::Str(s) => out.extend_from_slice(s),
            Value::Int(_) | Value::Float(_) => out.extend_from_slice(tostring_plain(&v).as_bytes()),
            _ => {
                return Err(l.native_error(format!(
                    "invalid value (at index {}) in table for 'concat'",
                    k
                )))
            }
        }
        if k != last {
            if let Some(s) = &sep {
                out.extend_from_slice(s);
            }
        }
        if out.len() > crate::lstrlib::MAX_STRING {
            return Err(l.make_error(ErrorKind::Budget, Value::str(b"not enough memory")));
        }
        if k == i64::MAX {
            break;
        }
        k += 1;
    }
    l.ret1(base, Value::bytes(out))
}

fn sort_lt(l: &mut Lua, cmp: &Value, a: &Value, b: &Value) -> R<bool> {
    l.tick()?;
    if cmp.is_nil() {
        l.less_than(a, b, 0)
    } else {
        Ok(l.call1(cmp.clone(), &[a.clone(), b.clone()])?.truthy())
    }
}

fn t_sort(l: &mut Lua, base: usize) -> R<usize> {
    let t = l.check_table(base, 0, "sort")?;
    let tv = Value::Table(t.clone());
    let n = aux_len(l, &tv)?;
    let cmp = l.arg(base, 1).clone();
    if !cmp.is_nil() && !cmp.is_function() {
        return Err(l.type_arg_error(base, 1, "sort", "function"));
    }
    if n >= i32::MAX as i64 {
        return Err(l.arg_error(0, "sort", "array too big"));
    }
    if n < 2 {
        return l.ret0(base);
    }
    let mut v: Vec<Value> = Vec::with_capacity((n as usize).min(1 << 16));
    for i in 1..=n {
        v.push(geti(l, &t, i)?);
    }
    // merge sort (bottom-up), tolerant to inconsistent comparators
    let len = v.len();
    let mut src = v;
    let mut dst: Vec<Value> = vec![Value::Nil; len];
    let mut width = 1;
    while width < len {
        let mut lo = 0;
        while lo < len {
            let mid = (lo + width).min(len);
            let hi = (lo + 2 * width).min(len);
            let (mut i, mut j, mut k) = (lo, mid, lo);
            while i < mid && j < hi {
                // take from the right only if right < left (stable)
                if sort_lt(l, &cmp, &src[j], &src[i])? {
                    dst[k] = std::mem::take(&mut src[j]);
                    j += 1;
                } else {
                    dst[k] = std::mem::take(&mut src[i]);
                    i += 1;
                }
                k += 1;
            }
            while i < mid {
                dst[k] = std::mem::take(&mut src[i]);
                i += 1;
                k += 1;
            }
            while j < hi {
                dst[k] = std::mem::take(&mut src[j]);
                j += 1;
                k += 1;
            }
            lo += 2 * width;
        }
        std::mem::swap(&mut src, &mut dst);
        width *= 2;
    }
    for (i, x) in src.into_iter().enumerate() {
        seti(l, &t, i as i64 + 1, x)?;
    }
    l.ret0(base)
}

// ---------------------------------------------------------------------------
// math library

fn push_numint(f: f64) -> Value {
    match float_to_int(f, 0) {
        Some(i) => Value::Int(i),
        None => Value::Float(f),
    }
}

fn m_floor(l: &mut Lua, base: usize) -> R<usize> {
    if let Value::Int(i) = l.arg(base, 0) {
        let i = *i;
        return l.ret1(base, Value::Int(i));
    }
    let d = l.check_num(base, 0, "floor")?;
    l.ret1(base, push_numint(d.floor()))
}

fn m_ceil(l: &mut Lua, base: usize) -> R<usize> {
    if let Value::Int(i) = l.arg(base, 0) {
        let i = *i;
        return l.ret1(base, Value::Int(i));
    }
    let d = l.check_num(base, 0, "ceil")?;
    l.ret1(base, push_numint(d.ceil()))
}

fn m_abs(l: &mut Lua, base: usize) -> R<usize> {
    if let Value::Int(i) = l.arg(base, 0) {
        let i = *i;
        return l.ret1(base, Value::Int(if i < 0 { i.wrapping_neg() } else { i }));
    }
    let d = l.check_num(base, 0, "abs")?;
    l.ret1(base, Value::Float(d.abs()))
}

fn fix(r: f64, a: f64) -> f64 {
    crate::ops::fnan(r, a, a)
}

macro_rules! math1 {
    ($fname:ident, $name:expr, $op:expr) => {
        fn $fname(l: &mut Lua, base: usize) -> R<usize> {
            let d = l.check_num(base, 0, $name)?;
            let f: fn(f64) -> f64 = $op;
            l.ret1(base, Value::Float(fix(f(d), d)))
        }
    };
}

math1!(m_sqrt, "sqrt", |x| x.sqrt());
math1!(m_sin, "sin", |x| x.sin());
math1!(m_cos, "cos", |x| x.cos());
math1!(m_tan, "tan", |x| x.tan());
math1!(m_asin, "asin", |x| x.asin());
math1!(m_acos, "acos", |x| x.acos());
math1!(m_exp, "exp", |x| x.exp());

fn m_atan(l: &mut Lua, base: usize) -> R<usize> {
    let y = l.check_num(base, 0, "atan")?;
    let x = if l.arg(base, 1).is_nil() { 1.0 } else { l.check_num(base, 1, "atan")? };
    l.ret1(base, Value::Float(y.atan2(x)))
}

fn m_log(l: &mut Lua, base: usize) -> R<usize> {
    let x = l.check_num(base, 0, "log")?;
    let r = if l.arg(base, 1).is_nil() {
        x.ln()
    } else {
        let b = l.check_num(base, 1, "log")?;
        if b == 2.0 {
            x.log2()
        } else if b == 10.0 {
            x.log10()
        } else {
            x.ln() / b.ln()
        }
    };
    l.ret1(base, Value::Float(fix(r, x)))
}

fn m_fmod(l: &mut Lua, base: usize) -> R<usize> {
    if let (Value::Int(a), Value::Int(b)) = (l.arg(base, 0), l.arg(base, 1)) {
        let (a, b) = (*a, *b);
        if (b as u64).wrapping_add(1) <= 1 {
            // special cases: -1 or 0
            if b == 0 {
                return Err(l.arg_error(1, "fmod", "zero"));
            }
            return l.ret1(base, Value::Int(0));
        }
        return l.ret1(base, Value::Int(a % b));
    }
    let a = l.check_num(base, 0, "fmod")?;
    let b = l.check_num(base, 1, "fmod")?;
    l.ret1(base, Value::Float(crate::ops::fnan(a % b, a, b)))
}

fn m_modf(l: &mut Lua, base: usize) -> R<usize> {
    if let Value::Int(i) = l.arg(base, 0) {
        let i = *i;
        // lua_settop(L, 1); push 0.0 : the integer itself and a float zero
        return l.ret2(base, Value::Int(i), Value::Float(0.0));
    }
    let n = l.check_num(base, 0, "modf")?;
    let ip = if n < 0.0 { n.ceil() } else { n.floor() };
    let frac = if n == ip { 0.0 } else { n - ip };
    l.ret2(base, Value::Float(ip), Value::Float(frac))
}

fn m_tointeger(l: &mut Lua, base: usize) -> R<usize> {
    // 5.3: lua_tointegerx, which also converts numeric strings
    let r = match tointeger(l.arg(base, 0)) {
        Some(i) => Value::Int(i),
        None => {
            l.check_any(base, 0, "tointeger")?;
            Value::Nil
        }
    };
    l.ret1(base, r)
}

fn m_type(l: &mut Lua, base: usize) -> R<usize> {
    let r = match l.arg(base, 0) {
        Value::Int(_) => Value::str(b"integer"),
        Value::Float(_) => Value::str(b"float"),
        _ => {
            l.check_any(base, 0, "type")?;
            Value::Nil
        }
    };
    l.ret1(base, r)
}

fn num_lt(l: &mut Lua, a: &Value, b: &Value) -> bool {
    l.less_than(a, b, 0).unwrap_or(false)
}

fn m_max(l: &mut Lua, base: usize) -> R<usize> {
    let n = l.nargs(base);
    if n < 1 {
        return Err(l.arg_error(0, "max", "number expected, got no value"));
    }
    let mut best = l.check_number(base, 0, "max")?;
    for i in 1..n {
        let v = l.check_number(base, i, "max")?;
        if num_lt(l, &best, &v) {
            best = v;
        }
    }
    l.ret1(base, best)
}

fn m_min(l: &mut Lua, base: usize) -> R<usize> {
    let n = l.nargs(base);
    if n < 1 {
        return Err(l.arg_error(0, "min", "number expected, got no value"));
    }
    let mut best = l.check_number(base, 0, "min")?;
    for i in 1..n {
        let v = l.check_number(base, i, "min")?;
        if num_lt(l, &v, &best) {
            best = v;
        }
    }
    l.ret1(base, best)
}

fn next_random(l: &mut Lua) -> u64 {
    // xorshift64*
    let mut x = l.rng;
    x ^= x >> 12;
    x ^= x << 25;
    x ^= x >> 27;
    l.rng = x;
    x.wrapping_mul(0x2545_F491_4F6C_DD1D)
}

fn m_random(l: &mut Lua, base: usize) -> R<usize> {
    let r = (next_random(l) >> 11) as f64 / 9007199254740992.0;
    let (low, up) = match l.nargs(base) {
        0 => return l.ret1(base, Value::Float(r)),
        1 => (1, l.check_int(base, 0, "random")?),
        2 => (l.check_int(base, 0, "random")?, l.check_int(base, 1, "random")?),
        _ => return Err(l.native_error("wrong number of arguments")),
    };
    if low > up {
        let which = if l.nargs(base) == 1 { 0 } else { 1 };
        return Err(l.arg_error(which, "random", "interval is empty"));
    }
    if !(low >= 0 || up <= i64::MAX + low) {
        return Err(l.arg_error(which_arg(l, base), "random", "interval too large"));
    }
    let rr = r * ((up - low) as f64 + 1.0);
    l.ret1(base, Value::Int((rr as i64).wrapping_add(low)))
}

fn which_arg(l: &Lua, base: usize) -> usize {
    if l.nargs(base) == 1 {
        0
    } else {
        1
    }
}

fn m_randomseed(l: &mut Lua, base: usize) -> R<usize> {
    let n = l.check_num(base, 0, "randomseed")?;
    let mut s = (n as i64 as u64) ^ n.to_bits();
    if s == 0 {
        s = 0x2545_F491_4F6C_DD1D;
    }
    l.rng = s;
    next_random(l);
    l.ret0(base)
}

fn m_ult(l: &mut Lua, base: usize) -> R<usize> {
    let a = l.check_int(base, 0, "ult")?;
    let b = l.check_int(base, 1, "ult")?;
    l.ret1(base, Value::Bool((a as u64) < (b as u64)))
}

// --- deprecated functions present when Lua 5.3 is built with LUA_COMPAT_5_2
// (LUA_COMPAT_MATHLIB), which is what the stock `make linux` and the
// Debian/Ubuntu `lua5.3` packages do. Off by default here.

math1!(m_cosh, "cosh", |x| x.cosh());
math1!(m_sinh, "sinh", |x| x.sinh());
math1!(m_tanh, "tanh", |x| x.tanh());
math1!(m_log10, "log10", |x| x.log10());

fn m_pow(l: &mut Lua, base: usize) -> R<usize> {
    let x = l.check_num(base, 0, "pow")?;
    let y = l.check_num(base, 1, "pow")?;
    l.ret1(base, Value::Float(crate::ops::pow(x, y)))
}

fn m_ldexp(l: &mut Lua, base: usize) -> R<usize> {
    let x = l.check_num(base, 0, "ldexp")?;
    let e = l.check_int(base, 1, "ldexp")?.clamp(-5000, 5000);
    let mut r = x;
    let mut e = e;
    while e > 0 {
        let s = e.min(1000);
        r *= 2f64.powi(s as i32);
        e -= s;
    }
    while e < 0 {
        let s = (-e).min(1000);
        r *= 2f64.powi(-(s as i32));
        e += s;
    }
    l.ret1(base, Value::Float(r))
}

fn m_frexp(l: &mut Lua, base: usize) -> R<usize> {
    let x = l.check_num(base, 0, "frexp")?;
    if x == 0.0 || !x.is_finite() {
        return l.ret2(base, Value::Float(x), Value::Int(0));
    }
    let mut m = x;
    let mut e: i64 = 0;
    // normalise subnormals first
    if m.abs() < f64::MIN_POSITIVE {
        m *= 2f64.powi(64);
        e -= 64;
    }
    let bits = m.to_bits();
    let exp = ((bits >> 52) & 0x7ff) as i64;
    e += exp - 1022;
    let mb = (bits & !(0x7ffu64 << 52)) | (1022u64 << 52);
    l.ret2(base, Value::Float(f64::from_bits(mb)), Value::Int(e))
}

pub fn open_compat_5_2(l: &mut Lua) {
    let m = l.globals.borrow().get_str(b"math");
    if let Value::Table(m) = m {
        let mut m = m.borrow_mut();
        reg(&mut m, "atan2", native!("math.atan2", m_atan));
        reg(&mut m, "cosh", native!("math.cosh", m_cosh));
        reg(&mut m, "sinh", native!("math.sinh", m_sinh));
        reg(&mut m, "tanh", native!("math.tanh", m_tanh));
        reg(&mut m, "pow", native!("math.pow", m_pow));
        reg(&mut m, "frexp", native!("math.frexp", m_frexp));
        reg(&mut m, "ldexp", native!("math.ldexp", m_ldexp));
        reg(&mut m, "log10", native!("math.log10", m_log10));
    }
    l.compat_ipairs = true;
}

// ---------------------------------------------------------------------------
// os / io

fn os_time(l: &mut Lua, base: usize) -> R<usize> {
    let t = std::time::SystemTime::now()
        .duration_since(std::time::UNIX_EPOCH)
        .map(|d| d.as_secs() as i64)
        .unwrap_or(0);
    l.ret1(base, Value::Int(t))
}

thread_local! {
    static START: std::time::Instant = std::time::Instant::now();
}

fn os_clock(l: &mut Lua, base: usize) -> R<usize> {
    let s = START.with(|s| s.elapsed().as_secs_f64());
    l.ret1(base, Value::Float(s))
}

fn os_getenv(l: &mut Lua, base: usize) -> R<usize> {
    let name = l.check_str(base, 0, "getenv")?;
    let r = match std::str::from_utf8(&name).ok().and_then(|n| std::env::var_os(n)) {
        Some(v) => {
            use std::os::unix::ffi::OsStrExt;
            Value::str(v.as_bytes())
        }
        None => Value::Nil,
    };
    l.ret1(base, r)
}

fn os_exit(l: &mut Lua, base: usize) -> R<usize> {
    let code = match l.arg(base, 0) {
        Value::Nil | Value::Bool(true) => 0,
        Value::Bool(false) => 1,
        _ => l.check_int(base, 0, "exit")?,
    };
    Err(l.make_error(ErrorKind::Exit, Value::Int(code)))
}

fn io_write_from(l: &mut Lua, base: usize, first: usize, fname: &str) -> R<()> {
    let n = l.nargs(base);
    for i in first..n {
        match l.arg(base, i) {
            Value::Str(s) => {
                let s = s.clone();
                l.write_out(&s);
            }
            v @ (Value::Int(_) | Value::Float(_)) => {
                let s = tostring_plain(v);
                l.write_out(s.as_bytes());
            }
            _ => return Err(l.type_arg_error(base, i, fname, "string")),
        }
    }
    Ok(())
}

fn io_write(l: &mut Lua, base: usize) -> R<usize> {
    io_write_from(l, base, 0, "write")?;
    let so = match l.globals.borrow().get_str(b"io") {
        Value::Table(io) => io.borrow().get_str(b"stdout"),
        _ => Value::Nil,
    };
    l.ret1(base, so)
}

fn file_write(l: &mut Lua, base: usize) -> R<usize> {
    io_write_from(l, base, 1, "write")?;
    let me = l.arg(base, 0).clone();
    l.ret1(base, me)
}

fn file_flush(l: &mut Lua, base: usize) -> R<usize> {
    l.flush_stdout();
    let me = l.arg(base, 0).clone();
    l.ret1(base, me)
}

fn io_read(l: &mut Lua, base: usize) -> R<usize> {
    l.ret1(base, Value::Nil)
}

// ---------------------------------------------------------------------------

pub fn open_libs(l: &mut Lua) {
    let g = l.globals.clone();
    {
        let mut g = g.borrow_mut();
        reg(&mut g, "_G", Value::Table(l.globals.clone()));
        reg(&mut g, "_VERSION", Value::str(b"Lua 5.3"));
        reg(&mut g, "assert", native!("assert", b_assert));
        reg(&mut g, "collectgarbage", native!("collectgarbage", b_collectgarbage));
        reg(&mut g, "error", native!("error", b_error));
        reg(&mut g, "getmetatable", native!("getmetatable", b_getmetatable));
        reg(&mut g, "ipairs", native!("ipairs", b_ipairs));
        reg(&mut g, "load", native!("load", b_load));
        reg(&mut g, "next", native!("next", b_next));
        reg(&mut g, "pairs", native!("pairs", b_pairs));
        reg(&mut g, "pcall", native!("pcall", b_pcall));
        reg(&mut g, "print", native!("print", b_print));
        reg(&mut g, "rawequal", native!("rawequal", b_rawequal));
        reg(&mut g, "rawget", native!("rawget", b_rawget));
        reg(&mut g, "rawlen", native!("rawlen", b_rawlen));
        reg(&mut g, "rawset", native!("rawset", b_rawset));
        reg(&mut g, "require", native!("require", b_require));
        reg(&mut g, "select", native!("select", b_select));
        reg(&mut g, "setmetatable", native!("setmetatable", b_setmetatable));
        reg(&mut g, "tonumber", native!("tonumber", b_tonumber));
        reg(&mut g, "tostring", native!("tostring", b_tostring));
        reg(&mut g, "type", native!("type", b_type));
        reg(&mut g, "xpcall", native!("xpcall", b_xpcall));
    }

    let mut t = Table::with_capacity(0, 8);
    reg(&mut t, "concat", native!("table.concat", t_concat));
    reg(&mut t, "insert", native!("table.insert", t_insert));
    reg(&mut t, "pack", native!("table.pack", t_pack));
    reg(&mut t, "remove", native!("table.remove", t_remove));
    reg(&mut t, "sort", native!("table.sort", t_sort));
    reg(&mut t, "unpack", native!("table.unpack", t_unpack));
    let t = l.new_table(t);
    reg(&mut g.borrow_mut(), "table", Value::Table(t.clone()));

    let mut m = Table::with_capacity(0, 32);
    reg(&mut m, "abs", native!("math.abs", m_abs));
    reg(&mut m, "acos", native!("math.acos", m_acos));
    reg(&mut m, "asin", native!("math.asin", m_asin));
    reg(&mut m, "atan", native!("math.atan", m_atan));
    reg(&mut m, "ceil", native!("math.ceil", m_ceil));
    reg(&mut m, "cos", native!("math.cos", m_cos));
    reg(&mut m, "exp", native!("math.exp", m_exp));
    reg(&mut m, "floor", native!("math.floor", m_floor));
    reg(&mut m, "fmod", native!("math.fmod", m_fmod));
    reg(&mut m, "huge", Value::Float(f64::INFINITY));
    reg(&mut m, "log", native!("math.log", m_log));
    reg(&mut m, "max", native!("math.max", m_max));
    reg(&mut m, "maxinteger", Value::Int(i64::MAX));
    reg(&mut m, "min", native!("math.min", m_min));
    reg(&mut m, "mininteger", Value::Int(i64::MIN));
    reg(&mut m, "modf", native!("math.modf", m_modf));
    reg(&mut m, "pi", Value::Float(std::f64::consts::PI));
    reg(&mut m, "random", native!("math.random", m_random));
    reg(&mut m, "randomseed", native!("math.randomseed", m_randomseed));
    reg(&mut m, "sin", native!("math.sin", m_sin));
    reg(&mut m, "sqrt", native!("math.sqrt", m_sqrt));
    reg(&mut m, "tan", native!("math.tan", m_tan));
    reg(&mut m, "tointeger", native!("math.tointeger", m_tointeger));
    reg(&mut m, "type", native!("math.type", m_type));
    reg(&mut m, "ult", native!("math.ult", m_ult));
    let m = l.new_table(m);
    reg(&mut g.borrow_mut(), "math", Value::Table(m.clone()));

    let s = crate::lstrlib::open_string(l);

    let mut o = Table::with_capacity(0, 4);
    reg(&mut o, "clock", native!("os.clock", os_clock));
    reg(&mut o, "exit", native!("os.exit", os_exit));
    reg(&mut o, "getenv", native!("os.getenv", os_getenv));
    reg(&mut o, "time", native!("os.time", os_time));
    let o = l.new_table(o);
    reg(&mut g.borrow_mut(), "os", Value::Table(o.clone()));

    let mut so = Table::with_capacity(0, 2);
    reg(&mut so, "write", native!("write", file_write));
    reg(&mut so, "flush", native!("flush", file_flush));
    let so = l.new_table(so);
    let mut io = Table::with_capacity(0, 4);
    reg(&mut io, "read", native!("io.read", io_read));
    reg(&mut io, "stdout", Value::Table(so));
    reg(&mut io, "write", native!("io.write", io_write));
    let io = l.new_table(io);
    reg(&mut g.borrow_mut(), "io", Value::Table(io.clone()));

    // package
    let mut loaded = Table::with_capacity(0, 8);
    reg(&mut loaded, "_G", Value::Table(l.globals.clone()));
    reg(&mut loaded, "table", Value::Table(t));
    reg(&mut loaded, "math", Value::Table(m));
    reg(&mut loaded, "string", Value::Table(s));
    reg(&mut loaded, "os", Value::Table(o));
    reg(&mut loaded, "io", Value::Table(io));
    let loaded = l.new_table(loaded);
    let preload = l.new_table(Table::new());
    let mut p = Table::with_capacity(0, 4);
    reg(&mut p, "loaded", Value::Table(loaded));
    reg(&mut p, "preload", Value::Table(preload));
    reg(&mut p, "path", Value::str(b"./?.lua"));
    let p = l.new_table(p);
    reg(&mut g.borrow_mut(), "package", Value::Table(p));
}
