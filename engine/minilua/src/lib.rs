//! MiniLua: an implementation of the subset of Lua 5.3 needed to load and
//! run the output of the Sylt -> Lua compiler, written from the Lua 5.3
//! reference manual. It is used as a stand-in oracle for `lua5.3`.
//!
//! * [`load`] parses and statically checks a chunk (no execution). The
//!   resulting [`Chunk`] is immutable, `Send + Sync` (the AST is shared through
//!   an `Arc` and contains no `Rc`) and can be run any number of times in any
//!   number of states.
//! * [`Lua`] is one global state. It is **not** `Send` (values use `Rc`).
//!   Create one per test case on the worker thread.
//!
//! Native stack: the evaluator is a recursive tree walker. A Lua-level call
//! costs 1.2-2.5 KB of native stack in ordinary code and about 100 KB in the
//! pathological case (150-200 syntactic nesting levels inside the function).
//! With the default call-depth limit of 180 that is below 0.5 MB typically and
//! below 20 MB in the worst case: run on a thread with a stack of 64 MB or
//! more, or lower the guard with [`Lua::set_native_stack_limit`] (default
//! 48 MB) to about 3/4 of the thread's stack size. The guard turns native
//! exhaustion into a `StackOverflow` error instead of a crash.

pub mod ast;
pub mod interp;
pub mod lexer;
pub mod lstrlib;
pub mod numfmt;
pub mod ops;
pub mod parser;
pub mod stdlib;
pub mod value;

use std::sync::Arc;

use ast::ChunkInner;
pub use interp::ErrorKind;
use value::Value;

/// A syntax / static-check error, in Lua's wording (without the
/// `chunkname:line:` prefix, which is `format!("{}:{}: {}", name, line, msg)`).
#[derive(Debug, Clone)]
pub struct LoadError {
    pub line: u32,
    pub msg: String,
}

impl std::fmt::Display for LoadError {
    fn fmt(&self, f: &mut std::fmt::Formatter<'_>) -> std::fmt::Result {
        write!(f, "{}: {}", self.line, self.msg)
    }
}

/// Parsed and resolved chunk.
#[derive(Clone)]
pub struct Chunk {
    inner: Arc<ChunkInner>,
}

pub(crate) fn load_inner(src: &[u8], chunkname: &str, skip_hash_line: bool) -> Result<Arc<ChunkInner>, LoadError> {
    let p = parser::Parser::new(src, skip_hash_line);
    match p.parse_chunk(chunkname) {
        Ok(c) => Ok(Arc::new(c)),
        Err(e) => Err(LoadError { line: e.line, msg: e.msg }),
    }
}

/// Full syntax + static checks of a chunk, no execution. `chunkname` is the
/// name shown in messages (`stdin` gives `stdin:12: ...`); a leading `=` or
/// `@` is stripped like `luaO_chunkid` does.
pub fn load(src: &[u8], chunkname: &str) -> Result<Chunk, LoadError> {
    let name = chunkname.strip_prefix('=').or_else(|| chunkname.strip_prefix('@')).unwrap_or(chunkname);
    load_inner(src, name, true).map(|inner| Chunk { inner })
}

impl Chunk {
    pub fn name(&self) -> &str {
        &self.inner.name
    }
    /// max over all functions of simultaneously declared local variables
    /// (including the three hidden control variables of `for` loops, which
    /// count against Lua's limit of 200)
    pub fn max_active_locals(&self) -> usize {
        self.inner.protos.iter().map(|p| p.max_active_locals as usize).max().unwrap_or(0)
    }
    fn names(&self, ids: &[u32]) -> Vec<String> {
        ids.iter().map(|k| String::from_utf8_lossy(&self.inner.consts[*k as usize]).into_owned()).collect()
    }
    /// global (free) names that appear as assignment targets
    pub fn free_names_assigned(&self) -> Vec<String> {
        self.names(&self.inner.free_assigned)
    }
    /// global (free) names that are read
    pub fn free_names_read(&self) -> Vec<String> {
        self.names(&self.inner.free_read)
    }
    /// number of function prototypes, including the main function
    pub fn function_count(&self) -> usize {
        self.inner.protos.len()
    }
}

#[derive(Debug, Clone)]
pub struct LuaError {
    pub kind: ErrorKind,
    /// the error message (`tostring`-like rendering for non-string error values)
    pub msg: String,
    pub traceback: String,
    pub value_is_string: bool,
    /// exit code for `ErrorKind::Exit`
    pub exit_code: i64,
}

impl std::fmt::Display for LuaError {
    fn fmt(&self, f: &mut std::fmt::Formatter<'_>) -> std::fmt::Result {
        f.write_str(&self.msg)
    }
}

/// One Lua global state.
pub struct Lua {
    st: interp::Lua,
}

impl Default for Lua {
    fn default() -> Self {
        Lua::new()
    }
}

impl Lua {
    /// Fresh global state with the standard library subset.
    pub fn new() -> Lua {
        Lua { st: interp::Lua::new_state() }
    }

    /// Total instruction budget (statements, expression nodes, calls, loop
    /// iterations each count one). Exceeding it aborts with `ErrorKind::Budget`;
    /// `pcall` cannot catch that.
    pub fn set_budget(&mut self, instructions: u64) {
        self.st.limit = instructions;
    }

    /// Maximum call depth (Lua and native frames), default 180.
    pub fn set_max_call_depth(&mut self, d: usize) {
        self.st.max_depth = d.max(2);
    }

    /// Native stack the evaluator may use below the point where `run` was
    /// called (default 48 MB). Set it to about 3/4 of the thread's stack.
    pub fn set_native_stack_limit(&mut self, bytes: usize) {
        self.st.native_stack_limit = bytes;
    }

    pub fn instructions_used(&self) -> u64 {
        self.st.used
    }

    /// Execute the chunk as a main function without arguments. Globals persist
    /// across calls.
    pub fn run(&mut self, chunk: &Chunk) -> Result<(), LuaError> {
        match self.st.run_main(&chunk.inner) {
            Ok(()) => Ok(()),
            Err(e) => Err(self.convert_error(*e)),
        }
    }

    fn convert_error(&mut self, e: interp::LuaErrInner) -> LuaError {
        let value_is_string = matches!(e.value, Value::Str(_));
        let mut exit_code = 0;
        let msg = match &e.value {
            Value::Str(s) => String::from_utf8_lossy(s).into_owned(),
            Value::Int(i) if e.kind == ErrorKind::Exit => {
                exit_code = *i;
                format!("exit {}", i)
            }
            v @ (Value::Int(_) | Value::Float(_)) => ops::tostring_plain(v),
            other => {
                // like lua.c's msghandler: use __tostring if present
                let saved = self.st.limit;
                self.st.limit = self.st.used.saturating_add(100_000);
                let h = self.st.metamethod(other, b"__tostring");
                let r = if !h.is_nil() {
                    match self.st.call1(h, &[other.clone()]) {
                        Ok(Value::Str(s)) => Some(String::from_utf8_lossy(&s).into_owned()),
                        _ => None,
                    }
                } else {
                    None
                };
                self.st.limit = saved;
                self.st.stack.clear();
                self.st.ci.clear();
                r.unwrap_or_else(|| format!("(error object is a {} value)", other.type_name()))
            }
        };
        LuaError {
            kind: e.kind,
            msg,
            traceback: "stack traceback:\n\t[C]: in ?".to_string(),
            value_is_string,
            exit_code,
        }
    }

    /// Adds what a Lua 5.3 built with `-DLUA_COMPAT_5_2` has on top of the plain
    /// language (the stock `make linux` build and the Debian/Ubuntu `lua5.3`
    /// package are built that way): `math.pow`, `math.atan2`, `math.cosh`,
    /// `math.sinh`, `math.tanh`, `math.log10`, `math.frexp`, `math.ldexp` and
    /// the `__ipairs` metamethod. (`bit32` is not provided; the global `unpack`
    /// belongs to LUA_COMPAT_5_1 and stays absent.) Off by default.
    pub fn enable_compat_5_2(&mut self) {
        stdlib::open_compat_5_2(&mut self.st);
    }

    /// Everything `print` / `io.write` wrote so far; clears the buffer.
    pub fn take_output(&mut self) -> Vec<u8> {
        std::mem::take(&mut self.st.out)
    }

    /// Handler for `require "x"` (called once per module name; the handler
    /// usually runs another chunk in this state - that must be done by the
    /// caller after `run` returns, or beforehand). Without a handler `require`
    /// raises "module 'x' not found:...".
    pub fn set_require_handler(&mut self, f: Box<dyn FnMut(&str) -> Result<(), String>>) {
        self.st.require_handler = Some(f);
    }

    /// Names of all string-keyed globals that are currently non-nil.
    pub fn global_names_assigned(&self) -> Vec<String> {
        let g = self.st.globals.borrow();
        let mut v = Vec::new();
        let mut k = Value::Nil;
        while let Ok(Some((nk, _))) = g.next(&k) {
            if let Value::Str(s) = &nk {
                v.push(String::from_utf8_lossy(s).into_owned());
            }
            k = nk;
        }
        v
    }

    /// `tostring` of a global (for tests / harness convenience), without metamethods.
    pub fn global_to_string(&self, name: &str) -> String {
        let v = self.st.globals.borrow().get_str(name.as_bytes());
        ops::tostring_plain(&v)
    }

    /// Write output directly to stdout in 64 KB blocks (used by the `lua` binary).
    pub fn set_stream_stdout(&mut self, on: bool) {
        self.st.stream_stdout = on;
    }

    pub fn flush_stdout(&mut self) {
        self.st.flush_stdout();
    }
}

#[cfg(test)]
mod send_sync {
    fn assert_send_sync<T: Send + Sync>() {}
    #[test]
    fn chunk_is_send_sync() {
        assert_send_sync::<super::Chunk>();
    }
}
