pub fn placeholder() {}
