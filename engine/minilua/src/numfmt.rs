//! Number <-> text conversions with C / Lua 5.3 semantics:
//! `%.14g` and the other printf float conversions (implemented on top of
//! Rust's correctly rounded `{:.Ne}` / `{:.N}`), and `luaO_str2num`.

use crate::value::Value;

/// The canonical NaN an x86-64 FPU produces for invalid operations
/// (sign bit set: glibc prints it as `-nan`).
pub const X86_NAN: f64 = f64::from_bits(0xFFF8_0000_0000_0000);

#[derive(Clone, Copy, Default, Debug)]
pub struct Spec {
    pub minus: bool,
    pub plus: bool,
    pub space: bool,
    pub alt: bool,
    pub zero: bool,
    pub width: usize,
    pub prec: Option<usize>,
}

fn nonfinite(x: f64, upper: bool) -> Option<&'static str> {
    if x.is_nan() {
        Some(if upper { "NAN" } else { "nan" })
    } else if x.is_infinite() {
        Some(if upper { "INF" } else { "inf" })
    } else {
        None
    }
}

/// digits of `%e` without sign: returns (mantissa text like "1.2345", exponent)
fn e_parts(ax: f64, prec: usize) -> (String, i32) {
    let s = format!("{:.*e}", prec, ax);
    match s.find('e') {
        Some(p) => {
            let exp: i32 = s[p + 1..].parse().unwrap_or(0);
            (s[..p].to_string(), exp)
        }
        None => (s, 0),
    }
}

fn push_exp(out: &mut String, exp: i32, upper: bool) {
    out.push(if upper { 'E' } else { 'e' });
    out.push(if exp < 0 { '-' } else { '+' });
    let a = exp.unsigned_abs();
    if a < 10 {
        out.push('0');
    }
    out.push_str(&a.to_string());
}

/// body (no sign) of `%.{prec}e`
pub fn body_e(ax: f64, prec: usize, alt: bool, upper: bool) -> String {
    let (mut m, exp) = e_parts(ax, prec);
    if alt && prec == 0 {
        m.push('.');
    }
    push_exp(&mut m, exp, upper);
    m
}

/// body (no sign) of `%.{prec}f`
pub fn body_f(ax: f64, prec: usize, alt: bool) -> String {
    let mut s = format!("{:.*}", prec, ax);
    if alt && prec == 0 {
        s.push('.');
    }
    s
}

fn strip_zeros(s: &mut String) {
    if s.contains('.') {
        while s.ends_with('0') {
            s.pop();
        }
        if s.ends_with('.') {
            s.pop();
        }
    }
}

/// body (no sign) of `%.{prec}g`
pub fn body_g(ax: f64, prec: usize, alt: bool, upper: bool) -> String {
    let p = if prec == 0 { 1 } else { prec };
    let x = if ax == 0.0 { 0 } else { e_parts(ax, p - 1).1 };
    if x >= -4 && (x as i64) < p as i64 {
        let fp = (p as i64 - 1 - x as i64).max(0) as usize;
        let mut s = format!("{:.*}", fp, ax);
        if !alt {
            strip_zeros(&mut s);
        } else if !s.contains('.') {
            s.push('.');
        }
        s
    } else {
        let (mut m, exp) = e_parts(ax, p - 1);
        if !alt {
            strip_zeros(&mut m);
        } else if !m.contains('.') {
            m.push('.');
        }
        push_exp(&mut m, exp, upper);
        m
    }
}

/// Apply sign / width / flags to a numeric body.
pub fn pad_number(neg: bool, body: &str, spec: &Spec, allow_zero_pad: bool) -> String {
    let sign = if neg {
        "-"
    } else if spec.plus {
        "+"
    } else if spec.space {
        " "
    } else {
        ""
    };
    let len = sign.len() + body.len();
    let mut out = String::with_capacity(len.max(spec.width));
    if len >= spec.width {
        out.push_str(sign);
        out.push_str(body);
    } else if spec.minus {
        out.push_str(sign);
        out.push_str(body);
        for _ in len..spec.width {
            out.push(' ');
        }
    } else if spec.zero && allow_zero_pad {
        out.push_str(sign);
        for _ in len..spec.width {
            out.push('0');
        }
        out.push_str(body);
    } else {
        for _ in len..spec.width {
            out.push(' ');
        }
        out.push_str(sign);
        out.push_str(body);
    }
    out
}

/// Full printf float conversion, `conv` one of e E f F g G.
pub fn format_float(x: f64, conv: u8, spec: &Spec) -> String {
    let upper = conv.is_ascii_uppercase();
    let neg = x.is_sign_negative();
    if let Some(t) = nonfinite(x, upper) {
        return pad_number(neg, t, spec, false);
    }
    let ax = x.abs();
    let prec = spec.prec.unwrap_or(6);
    let body = match conv {
        b'e' | b'E' => body_e(ax, prec, spec.alt, upper),
        b'f' | b'F' => body_f(ax, prec, spec.alt),
        _ => body_g(ax, prec, spec.alt, upper),
    };
    pad_number(neg, &body, spec, true)
}

/// `%.14g`
pub fn fmt_g14(x: f64) -> String {
    let neg = x.is_sign_negative();
    if let Some(t) = nonfinite(x, false) {
        return if neg { format!("-{}", t) } else { t.to_string() };
    }
    let body = body_g(x.abs(), 14, false, false);
    if neg {
        format!("-{}", body)
    } else {
        body
    }
}

/// `lua_Number2str` + the "looks like an int" rule of `tostringbuff`.
pub fn float_to_string(x: f64) -> String {
    let mut s = fmt_g14(x);
    if s.bytes().all(|b| b == b'-' || b.is_ascii_digit()) {
        s.push_str(".0");
    }
    s
}

pub fn int_to_string(i: i64) -> String {
    i.to_string()
}

fn is_lua_space(b: u8) -> bool {
    matches!(b, b' ' | b'\t' | b'\n' | b'\r' | 0x0b | 0x0c)
}

fn hexval(b: u8) -> Option<u32> {
    (b as char).to_digit(16)
}

/// `l_str2int`
fn str2int(s: &[u8]) -> Option<i64> {
    let mut i = 0;
    let n = s.len();
    while i < n && is_lua_space(s[i]) {
        i += 1;
    }
    let mut neg = false;
    if i < n && s[i] == b'-' {
        neg = true;
        i += 1;
    } else if i < n && s[i] == b'+' {
        i += 1;
    }
    let mut a: u64 = 0;
    let mut empty = true;
    if i + 1 < n && s[i] == b'0' && (s[i + 1] == b'x' || s[i + 1] == b'X') {
        i += 2;
        while i < n {
            match hexval(s[i]) {
                Some(d) => {
                    a = a.wrapping_mul(16).wrapping_add(d as u64);
                    empty = false;
                    i += 1;
                }
                None => break,
            }
        }
    } else {
        const MAXBY10: u64 = (i64::MAX as u64) / 10;
        const MAXLASTD: u64 = (i64::MAX as u64) % 10;
        while i < n && s[i].is_ascii_digit() {
            let d = (s[i] - b'0') as u64;
            if a > MAXBY10 || (a == MAXBY10 && d > MAXLASTD + neg as u64) {
                return None;
            }
            a = a * 10 + d;
            empty = false;
            i += 1;
        }
    }
    while i < n && is_lua_space(s[i]) {
        i += 1;
    }
    if empty || i != n {
        return None;
    }
    Some(if neg { (0u64.wrapping_sub(a)) as i64 } else { a as i64 })
}

fn ldexp(m: f64, e: i64) -> f64 {
    // m * 2^e without intermediate overflow for moderate m
    let mut r = m;
    let mut e = e;
    while e > 1000 {
        r *= 2f64.powi(1000);
        e -= 1000;
        if r.is_infinite() {
            return r;
        }
    }
    while e < -1000 {
        r *= 2f64.powi(-1000);
        e += 1000;
        if r == 0.0 {
            return r;
        }
    }
    r * 2f64.powi(e as i32)
}

/// C99 `strtod` restricted to what `l_str2d` lets through (no inf/nan).
/// Returns (value, bytes consumed) with consumed == 0 on failure.
fn strtod(s: &[u8]) -> Option<(f64, usize)> {
    let n = s.len();
    let mut i = 0;
    let mut neg = false;
    if i < n && (s[i] == b'-' || s[i] == b'+') {
        neg = s[i] == b'-';
        i += 1;
    }
    if i + 1 < n && s[i] == b'0' && (s[i + 1] == b'x' || s[i + 1] == b'X') {
        // hexadecimal float
        let save = i + 1; // position after "0" (fallback: plain zero)
        let mut j = i + 2;
        let mut mant: u64 = 0;
        let mut exp: i64 = 0;
        let mut any = false;
        let mut seen_dot = false;
        let mut sticky = false;
        while j < n {
            if s[j] == b'.' && !seen_dot {
                seen_dot = true;
                j += 1;
                continue;
            }
            match hexval(s[j]) {
                Some(d) => {
                    any = true;
                    if mant >> 59 == 0 {
                        mant = mant * 16 + d as u64;
                        if seen_dot {
                            exp -= 4;
                        }
                    } else {
                        if d != 0 {
                            sticky = true;
                        }
                        if !seen_dot {
                            exp += 4;
                        }
                    }
                    j += 1;
                }
                None => break,
            }
        }
        if !any {
            // "0x" alone: strtod parses the "0"
            return Some((if neg { -0.0 } else { 0.0 }, save));
        }
        if sticky {
            mant |= 1;
        }
        let mut end = j;
        if j < n && (s[j] == b'p' || s[j] == b'P') {
            let mut k = j + 1;
            let mut eneg = false;
            if k < n && (s[k] == b'-' || s[k] == b'+') {
                eneg = s[k] == b'-';
                k += 1;
            }
            if k < n && s[k].is_ascii_digit() {
                let mut e: i64 = 0;
                while k < n && s[k].is_ascii_digit() {
                    e = (e * 10 + (s[k] - b'0') as i64).min(1 << 40);
                    k += 1;
                }
                exp += if eneg { -e } else { e };
                end = k;
            }
        }
        let v = ldexp(mant as f64, exp);
        return Some((if neg { -v } else { v }, end));
    }
    // decimal
    let start = i;
    let mut j = i;
    let mut digits = 0;
    while j < n && s[j].is_ascii_digit() {
        j += 1;
        digits += 1;
    }
    if j < n && s[j] == b'.' {
        j += 1;
        while j < n && s[j].is_ascii_digit() {
            j += 1;
            digits += 1;
        }
    }
    if digits == 0 {
        return None;
    }
    let mut end = j;
    if j < n && (s[j] == b'e' || s[j] == b'E') {
        let mut k = j + 1;
        if k < n && (s[k] == b'-' || s[k] == b'+') {
            k += 1;
        }
        if k < n && s[k].is_ascii_digit() {
            while k < n && s[k].is_ascii_digit() {
                k += 1;
            }
            end = k;
        }
    }
    let txt = std::str::from_utf8(&s[start..end]).ok()?;
    // Rust accepts "1.", ".5", "1e5" - all forms that reach here.
    let v: f64 = txt.parse().ok()?;
    Some((if neg { -v } else { v }, end))
}

/// `l_str2d`
fn str2d(s: &[u8]) -> Option<f64> {
    if s.iter().any(|&b| b == b'n' || b == b'N') {
        return None; // reject 'inf' and 'nan'
    }
    let mut i = 0;
    while i < s.len() && is_lua_space(s[i]) {
        i += 1; // strtod skips leading white space
    }
    let (v, used) = strtod(&s[i..])?;
    if used == 0 {
        return None;
    }
    let mut j = i + used;
    while j < s.len() && is_lua_space(s[j]) {
        j += 1;
    }
    if j != s.len() {
        return None;
    }
    Some(v)
}

/// `luaO_str2num`: the whole string must be a numeral (surrounding
/// whitespace allowed). Embedded NULs make it fail like in C.
pub fn str2num(s: &[u8]) -> Option<Value> {
    if s.contains(&0) {
        return None;
    }
    if let Some(i) = str2int(s) {
        return Some(Value::Int(i));
    }
    str2d(s).map(Value::Float)
}

/// `luaV_tointeger` for floats, mode 0 = exact only, 1 = floor, 2 = ceil.
pub fn float_to_int(f: f64, mode: u8) -> Option<i64> {
    let mut fl = f.floor();
    if fl != f {
        match mode {
            0 => return None,
            2 => fl += 1.0,
            _ => {}
        }
    }
    // lua_numbertointeger: fl >= MININT && fl < -(MININT)
    if fl >= -9223372036854775808.0 && fl < 9223372036854775808.0 {
        Some(fl as i64)
    } else {
        None
    }
}
