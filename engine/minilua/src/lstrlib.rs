//! String library: a port of Lua 5.3.6 `lstrlib.c` (patterns, format, ...).

use std::cell::RefCell;
use std::rc::Rc;

use crate::interp::{ErrorKind, Lua, R};
use crate::numfmt::{format_float, pad_number, Spec};
use crate::ops::{tofloat, tointeger, tostring_plain};
use crate::stdlib::{native, reg};
use crate::value::*;

pub const MAX_STRING: usize = 1 << 28;

fn posrelat(pos: i64, len: usize) -> i64 {
    if pos >= 0 {
        pos
    } else if (0u64.wrapping_sub(pos as u64)) > len as u64 {
        0
    } else {
        len as i64 + pos + 1
    }
}

fn mem_error(l: &Lua) -> Box<crate::interp::LuaErrInner> {
    l.make_error(ErrorKind::Budget, Value::str(b"not enough memory"))
}

fn s_len(l: &mut Lua, base: usize) -> R<usize> {
    let s = l.check_str(base, 0, "len")?;
    l.ret1(base, Value::Int(s.len() as i64))
}

fn s_sub(l: &mut Lua, base: usize) -> R<usize> {
    let s = l.check_str(base, 0, "sub")?;
    let len = s.len();
    let mut start = posrelat(l.check_int(base, 1, "sub")?, len);
    let mut end = posrelat(l.opt_int(base, 2, "sub", -1)?, len);
    if start < 1 {
        start = 1;
    }
    if end > len as i64 {
        end = len as i64;
    }
    if start <= end {
        let r = Value::str(&s[(start - 1) as usize..end as usize]);
        l.ret1(base, r)
    } else {
        l.ret1(base, Value::str(b""))
    }
}

fn s_upper(l: &mut Lua, base: usize) -> R<usize> {
    let s = l.check_str(base, 0, "upper")?;
    l.tick_n((s.len() / 64) as u64)?;
    l.ret1(base, Value::bytes(s.to_ascii_uppercase()))
}

fn s_lower(l: &mut Lua, base: usize) -> R<usize> {
    let s = l.check_str(base, 0, "lower")?;
    l.tick_n((s.len() / 64) as u64)?;
    l.ret1(base, Value::bytes(s.to_ascii_lowercase()))
}

fn s_reverse(l: &mut Lua, base: usize) -> R<usize> {
    let s = l.check_str(base, 0, "reverse")?;
    l.tick_n((s.len() / 64) as u64)?;
    let mut v = s.to_vec();
    v.reverse();
    l.ret1(base, Value::bytes(v))
}

fn s_rep(l: &mut Lua, base: usize) -> R<usize> {
    let s = l.check_str(base, 0, "rep")?;
    let n = l.check_int(base, 1, "rep")?;
    let sep = l.opt_str(base, 2, "rep")?;
    let sep: &[u8] = match &sep {
        Some(x) => x,
        None => b"",
    };
    if n <= 0 {
        return l.ret1(base, Value::str(b""));
    }
    let unit = s.len() as u128 + sep.len() as u128;
    let total = unit * n as u128 - sep.len() as u128;
    if total > i64::MAX as u128 {
        return Err(l.native_error("resulting string too large"));
    }
    if total > MAX_STRING as u128 {
        return Err(mem_error(l));
    }
    l.tick_n((total / 64) as u64)?;
    let mut out = Vec::with_capacity(total as usize);
    for i in 0..n {
        out.extend_from_slice(&s);
        if i + 1 < n {
            out.extend_from_slice(sep);
        }
    }
    l.ret1(base, Value::bytes(out))
}

fn s_byte(l: &mut Lua, base: usize) -> R<usize> {
    let s = l.check_str(base, 0, "byte")?;
    let len = s.len();
    let mut posi = posrelat(l.opt_int(base, 1, "byte", 1)?, len);
    let mut pose = posrelat(l.opt_int(base, 2, "byte", posi)?, len);
    if posi < 1 {
        posi = 1;
    }
    if pose > len as i64 {
        pose = len as i64;
    }
    if posi > pose {
        return l.ret0(base);
    }
    if pose - posi >= 1_000_000 {
        return Err(l.native_error("string slice too long"));
    }
    let vals: Vec<Value> = s[(posi - 1) as usize..pose as usize].iter().map(|b| Value::Int(*b as i64)).collect();
    l.retn(base, vals)
}

fn s_char(l: &mut Lua, base: usize) -> R<usize> {
    let n = l.nargs(base);
    let mut out = Vec::with_capacity(n);
    for i in 0..n {
        let c = l.check_int(base, i, "char")?;
        if !(0..=255).contains(&c) {
            return Err(l.arg_error(i, "char", "value out of range"));
        }
        out.push(c as u8);
    }
    l.ret1(base, Value::bytes(out))
}

// ---------------------------------------------------------------------------
// pattern matching

const L_ESC: u8 = b'%';
const MAXCAPTURES: usize = 32;
const MAXCCALLS: i32 = 200;
const CAP_UNFINISHED: isize = -1;
const CAP_POSITION: isize = -2;

struct MatchState<'a> {
    src: &'a [u8],
    pat: &'a [u8],
    level: usize,
    capture: [(usize, isize); MAXCAPTURES],
    matchdepth: i32,
    /// remaining matcher steps before the instruction budget is exhausted
    steps_left: u64,
    steps_used: u64,
}

const BUDGET_MARK: &str = "\u{0}budget";
const STEPS_PER_TICK: u64 = 8;

type MR<T> = Result<T, String>;

fn is_class(c: u8, cl: u8) -> bool {
    let res = match cl.to_ascii_lowercase() {
        b'a' => c.is_ascii_alphabetic(),
        b'c' => c.is_ascii_control(),
        b'd' => c.is_ascii_digit(),
        b'g' => c.is_ascii_graphic(),
        b'l' => c.is_ascii_lowercase(),
        b'p' => c.is_ascii_punctuation(),
        b's' => matches!(c, b' ' | b'\t' | b'\n' | b'\r' | 0x0b | 0x0c),
        b'u' => c.is_ascii_uppercase(),
        b'w' => c.is_ascii_alphanumeric(),
        b'x' => c.is_ascii_hexdigit(),
        b'z' => c == 0,
        _ => return cl == c,
    };
    if cl.is_ascii_lowercase() {
        res
    } else {
        !res
    }
}

impl<'a> MatchState<'a> {
    fn new(src: &'a [u8], pat: &'a [u8]) -> MatchState<'a> {
        MatchState {
            src,
            pat,
            level: 0,
            capture: [(0, 0); MAXCAPTURES],
            matchdepth: MAXCCALLS,
            steps_left: u64::MAX,
            steps_used: 0,
        }
    }

    fn reprep(&mut self) {
        self.level = 0;
        self.matchdepth = MAXCCALLS;
    }

    #[inline]
    fn pc(&self, p: usize) -> u8 {
        self.pat.get(p).copied().unwrap_or(0)
    }

    fn class_end(&self, p: usize) -> MR<usize> {
        let mut p = p;
        let c = self.pc(p);
        p += 1;
        if c == L_ESC {
            if p >= self.pat.len() {
                return Err("malformed pattern (ends with '%')".into());
            }
            return Ok(p + 1);
        }
        if c == b'[' {
            if self.pc(p) == b'^' {
                p += 1;
            }
            loop {
                if p >= self.pat.len() {
                    return Err("malformed pattern (missing ']')".into());
                }
                let cc = self.pc(p);
                p += 1;
                if cc == L_ESC && p < self.pat.len() {
                    p += 1;
                }
                if self.pc(p) == b']' {
                    break;
                }
            }
            return Ok(p + 1);
        }
        Ok(p)
    }

    /// `p` points to '[', `ec` to the closing ']'
    fn match_bracket_class(&self, c: u8, p: usize, ec: usize) -> bool {
        let mut p = p;
        let mut sig = true;
        if self.pc(p + 1) == b'^' {
            sig = false;
            p += 1;
        }
        loop {
            p += 1;
            if p >= ec {
                break;
            }
            if self.pc(p) == L_ESC {
                p += 1;
                if is_class(c, self.pc(p)) {
                    return sig;
                }
            } else if self.pc(p + 1) == b'-' && p + 2 < ec {
                p += 2;
                if self.pc(p - 2) <= c && c <= self.pc(p) {
                    return sig;
                }
            } else if self.pc(p) == c {
                return sig;
            }
        }
        !sig
    }

    #[inline]
    fn step(&mut self) -> MR<()> {
        self.steps_used += 1;
        if self.steps_used > self.steps_left {
            return Err(BUDGET_MARK.into());
        }
        Ok(())
    }

    fn single_match(&self, s: usize, p: usize, ep: usize) -> bool {
        if s >= self.src.len() {
            return false;
        }
        let c = self.src[s];
        match self.pc(p) {
            b'.' => true,
            L_ESC => is_class(c, self.pc(p + 1)),
            b'[' => self.match_bracket_class(c, p, ep - 1),
            pc => pc == c,
        }
    }

    fn match_balance(&self, s: usize, p: usize) -> MR<Option<usize>> {
        if p + 1 >= self.pat.len() {
            return Err("malformed pattern (missing arguments to '%b')".into());
        }
        if s >= self.src.len() || self.src[s] != self.pc(p) {
            return Ok(None);
        }
        let b = self.pc(p);
        let e = self.pc(p + 1);
        let mut cont = 1;
        let mut s = s + 1;
        while s < self.src.len() {
            let c = self.src[s];
            if c == e {
                cont -= 1;
                if cont == 0 {
                    return Ok(Some(s + 1));
                }
            } else if c == b {
                cont += 1;
            }
            s += 1;
        }
        Ok(None)
    }

    fn max_expand(&mut self, s: usize, p: usize, ep: usize) -> MR<Option<usize>> {
        let mut i: isize = 0;
        while self.single_match(s + i as usize, p, ep) {
            i += 1;
        }
        self.steps_used += (i as u64) / 4;
        while i >= 0 {
            if let Some(r) = self.do_match(s + i as usize, ep + 1)? {
                return Ok(Some(r));
            }
            i -= 1;
        }
        Ok(None)
    }

    fn min_expand(&mut self, s: usize, p: usize, ep: usize) -> MR<Option<usize>> {
        let mut s = s;
        loop {
            if let Some(r) = self.do_match(s, ep + 1)? {
                return Ok(Some(r));
            } else if self.single_match(s, p, ep) {
                self.step()?;
                s += 1;
            } else {
                return Ok(None);
            }
        }
    }

    fn start_capture(&mut self, s: usize, p: usize, what: isize) -> MR<Option<usize>> {
        if self.level >= MAXCAPTURES {
            return Err("too many captures".into());
        }
        self.capture[self.level] = (s, what);
        self.level += 1;
        let r = self.do_match(s, p)?;
        if r.is_none() {
            self.level -= 1;
        }
        Ok(r)
    }

    fn capture_to_close(&self) -> MR<usize> {
        let mut level = self.level;
        while level > 0 {
            level -= 1;
            if self.capture[level].1 == CAP_UNFINISHED {
                return Ok(level);
            }
        }
        Err("invalid pattern capture".into())
    }

    fn end_capture(&mut self, s: usize, p: usize) -> MR<Option<usize>> {
        let l = self.capture_to_close()?;
        self.capture[l].1 = (s - self.capture[l].0) as isize;
        let r = self.do_match(s, p)?;
        if r.is_none() {
            self.capture[l].1 = CAP_UNFINISHED;
        }
        Ok(r)
    }

    fn check_capture(&self, l: u8) -> MR<usize> {
        let l = l as isize - b'1' as isize;
        if l < 0 || l as usize >= self.level || self.capture[l as usize].1 == CAP_UNFINISHED {
            return Err(format!("invalid capture index %{}", l + 1));
        }
        Ok(l as usize)
    }

    fn match_capture(&self, s: usize, l: u8) -> MR<Option<usize>> {
        let l = self.check_capture(l)?;
        let (cs, cl) = self.capture[l];
        let len = cl.max(0) as usize;
        if self.src.len() - s >= len && self.src[cs..cs + len] == self.src[s..s + len] {
            Ok(Some(s + len))
        } else {
            Ok(None)
        }
    }

    fn do_match(&mut self, s: usize, p: usize) -> MR<Option<usize>> {
        self.matchdepth -= 1;
        if self.matchdepth < 0 {
            return Err("pattern too complex".into());
        }
        self.step()?;
        let r = self.do_match_inner(s, p);
        self.matchdepth += 1;
        r
    }

    fn do_match_inner(&mut self, s: usize, p: usize) -> MR<Option<usize>> {
        let mut s = s;
        let mut p = p;
        let plen = self.pat.len();
        loop {
            if p >= plen {
                return Ok(Some(s));
            }
            match self.pc(p) {
                b'(' => {
                    return if self.pc(p + 1) == b')' {
                        self.start_capture(s, p + 2, CAP_POSITION)
                    } else {
                        self.start_capture(s, p + 1, CAP_UNFINISHED)
                    };
                }
                b')' => return self.end_capture(s, p + 1),
                b'$' if p + 1 == plen => {
                    return Ok(if s == self.src.len() { Some(s) } else { None });
                }
                L_ESC if matches!(self.pc(p + 1), b'b' | b'f' | b'0'..=b'9') && p + 1 < plen => {
                    match self.pc(p + 1) {
                        b'b' => match self.match_balance(s, p + 2)? {
                            Some(ns) => {
                                s = ns;
                                p += 4;
                                continue;
                            }
                            None => return Ok(None),
                        },
                        b'f' => {
                            p += 2;
                            if self.pc(p) != b'[' || p >= plen {
                                return Err("missing '[' after '%f' in pattern".into());
                            }
                            let ep = self.class_end(p)?;
                            let prev = if s == 0 { 0 } else { self.src[s - 1] };
                            let cur = if s < self.src.len() { self.src[s] } else { 0 };
                            if !self.match_bracket_class(prev, p, ep - 1) && self.match_bracket_class(cur, p, ep - 1) {
                                p = ep;
                                continue;
                            }
                            return Ok(None);
                        }
                        d => match self.match_capture(s, d)? {
                            Some(ns) => {
                                s = ns;
                                p += 2;
                                continue;
                            }
                            None => return Ok(None),
                        },
                    }
                }
                _ => {
                    let ep = self.class_end(p)?;
                    let epc = self.pc(ep);
                    if !self.single_match(s, p, ep) {
                        if epc == b'*' || epc == b'?' || epc == b'-' {
                            p = ep + 1;
                            continue;
                        }
                        return Ok(None);
                    }
                    match epc {
                        b'?' => {
                            if let Some(r) = self.do_match(s + 1, ep + 1)? {
                                return Ok(Some(r));
                            }
                            p = ep + 1;
                            continue;
                        }
                        b'+' => return self.max_expand(s + 1, p, ep),
                        b'*' => return self.max_expand(s, p, ep),
                        b'-' => return self.min_expand(s, p, ep),
                        _ => {
                            s += 1;
                            p = ep;
                            continue;
                        }
                    }
                }
            }
        }
    }

    fn get_onecapture(&self, i: usize, s: usize, e: usize) -> MR<Value> {
        if i >= self.level {
            if i == 0 {
                Ok(Value::str(&self.src[s..e]))
            } else {
                Err(format!("invalid capture index %{}", i + 1))
            }
        } else {
            let (cs, cl) = self.capture[i];
            if cl == CAP_UNFINISHED {
                return Err("unfinished capture".into());
            }
            if cl == CAP_POSITION {
                Ok(Value::Int(cs as i64 + 1))
            } else {
                Ok(Value::str(&self.src[cs..cs + cl as usize]))
            }
        }
    }

    fn get_captures(&self, whole: Option<(usize, usize)>) -> MR<Vec<Value>> {
        let nlevels = if self.level == 0 && whole.is_some() { 1 } else { self.level };
        let (s, e) = whole.unwrap_or((0, 0));
        let mut v = Vec::with_capacity(nlevels);
        for i in 0..nlevels {
            v.push(self.get_onecapture(i, s, e)?);
        }
        Ok(v)
    }
}

fn begin(l: &Lua, ms: &mut MatchState) {
    ms.steps_left = l.limit.saturating_sub(l.used).saturating_mul(STEPS_PER_TICK).saturating_add(STEPS_PER_TICK);
    ms.steps_used = 0;
}

/// charge the matcher's work to the instruction budget
fn charge(l: &mut Lua, ms: &mut MatchState) -> R<()> {
    let n = ms.steps_used / STEPS_PER_TICK;
    ms.steps_left = ms.steps_left.saturating_sub(ms.steps_used);
    ms.steps_used = 0;
    l.tick_n(n)
}

fn match_err(l: &mut Lua, m: String) -> Box<crate::interp::LuaErrInner> {
    if m == BUDGET_MARK {
        l.used = l.limit.saturating_add(1);
        l.make_error(ErrorKind::Budget, Value::str(b"instruction budget exhausted"))
    } else {
        l.native_error(m)
    }
}

fn no_specials(p: &[u8]) -> bool {
    !p.iter().any(|c| b"^$*+?.([%-".contains(c))
}

fn memfind(h: &[u8], n: &[u8]) -> Option<usize> {
    if n.is_empty() {
        return Some(0);
    }
    if n.len() > h.len() {
        return None;
    }
    h.windows(n.len()).position(|w| w == n)
}

fn str_find_aux(l: &mut Lua, base: usize, find: bool) -> R<usize> {
    let fname = if find { "find" } else { "match" };
    let s = l.check_str(base, 0, fname)?;
    let p = l.check_str(base, 1, fname)?;
    let ls = s.len();
    let mut init = posrelat(l.opt_int(base, 2, fname, 1)?, ls);
    if init < 1 {
        init = 1;
    } else if init > ls as i64 + 1 {
        return l.ret1(base, Value::Nil);
    }
    let init = (init - 1) as usize;
    if find && (l.arg(base, 3).truthy() || no_specials(&p)) {
        l.tick_n((s.len() / 64) as u64)?;
        if let Some(pos) = memfind(&s[init..], &p) {
            let st = init + pos;
            return l.ret2(base, Value::Int(st as i64 + 1), Value::Int((st + p.len()) as i64));
        }
        return l.ret1(base, Value::Nil);
    }
    let anchor = p.first() == Some(&b'^');
    let pat: &[u8] = if anchor { &p[1..] } else { &p };
    let mut ms = MatchState::new(&s, pat);
    begin(l, &mut ms);
    let mut s1 = init;
    loop {
        ms.reprep();
        let r = ms.do_match(s1, 0).map_err(|m| match_err(l, m))?;
        charge(l, &mut ms)?;
        if let Some(e) = r {
            if find {
                let mut vals = vec![Value::Int(s1 as i64 + 1), Value::Int(e as i64)];
                vals.extend(ms.get_captures(None).map_err(|m| match_err(l, m))?);
                return l.retn(base, vals);
            } else {
                let vals = ms.get_captures(Some((s1, e))).map_err(|m| match_err(l, m))?;
                return l.retn(base, vals);
            }
        }
        s1 += 1;
        if s1 > ls || anchor {
            break;
        }
    }
    l.ret1(base, Value::Nil)
}

fn s_find(l: &mut Lua, base: usize) -> R<usize> {
    str_find_aux(l, base, true)
}

fn s_match(l: &mut Lua, base: usize) -> R<usize> {
    str_find_aux(l, base, false)
}

fn gmatch_aux(l: &mut Lua, base: usize, nc: &NClosure) -> R<usize> {
    let (s, p, mut src, lastmatch) = {
        let up = nc.up.borrow();
        let s = match &up[0] {
            Value::Str(s) => s.clone(),
            _ => Rc::from(&b""[..]),
        };
        let p = match &up[1] {
            Value::Str(s) => s.clone(),
            _ => Rc::from(&b""[..]),
        };
        let src = match &up[2] {
            Value::Int(i) => *i as usize,
            _ => 0,
        };
        let lm = match &up[3] {
            Value::Int(i) => *i,
            _ => -1,
        };
        (s, p, src, lm)
    };
    let mut ms = MatchState::new(&s, &p);
    begin(l, &mut ms);
    while src <= s.len() {
        ms.reprep();
        let r = ms.do_match(src, 0).map_err(|m| match_err(l, m))?;
        charge(l, &mut ms)?;
        if let Some(e) = r {
            if e as i64 != lastmatch {
                {
                    let mut up = nc.up.borrow_mut();
                    up[2] = Value::Int(e as i64);
                    up[3] = Value::Int(e as i64);
                }
                let vals = ms.get_captures(Some((src, e))).map_err(|m| match_err(l, m))?;
                return l.retn(base, vals);
            }
        }
        src += 1;
    }
    l.ret0(base)
}

fn s_gmatch(l: &mut Lua, base: usize) -> R<usize> {
    let s = l.check_str(base, 0, "gmatch")?;
    let p = l.check_str(base, 1, "gmatch")?;
    let nc = NClosure {
        name: "gmatch_aux",
        f: gmatch_aux,
        up: RefCell::new(vec![Value::Str(s), Value::Str(p), Value::Int(0), Value::Int(-1)]),
    };
    l.ret1(base, Value::NativeC(Rc::new(nc)))
}

fn add_value(l: &mut Lua, ms: &MatchState, out: &mut Vec<u8>, s: usize, e: usize, repl: &Value) -> R<()> {
    let v = match repl {
        Value::Table(_) => {
            let k = ms.get_onecapture(0, s, e).map_err(|m| match_err(l, m))?;
            l.index_value(repl.clone(), &k)?
        }
        f if f.is_function() => {
            let caps = ms.get_captures(Some((s, e))).map_err(|m| match_err(l, m))?;
            l.call_name = None;
            l.call1(f.clone(), &caps)?
        }
        _ => {
            // string (or number) replacement: add_s
            let news: Vec<u8> = match repl {
                Value::Str(x) => x.to_vec(),
                other => tostring_plain(other).into_bytes(),
            };
            let mut i = 0;
            while i < news.len() {
                if news[i] != L_ESC {
                    out.push(news[i]);
                } else {
                    i += 1;
                    let c = news.get(i).copied().unwrap_or(0);
                    if !c.is_ascii_digit() {
                        if c != L_ESC {
                            return Err(l.native_error("invalid use of '%' in replacement string"));
                        }
                        out.push(c);
                    } else if c == b'0' {
                        out.extend_from_slice(&ms.src[s..e]);
                    } else {
                        let v = ms.get_onecapture((c - b'1') as usize, s, e).map_err(|m| match_err(l, m))?;
                        out.extend_from_slice(tostring_plain(&v).as_bytes());
                        if let Value::Str(x) = &v {
                            // tostring_plain is lossy for non-UTF-8: redo exactly
                            let n = tostring_plain(&v).len();
                            out.truncate(out.len() - n);
                            out.extend_from_slice(x);
                        }
                    }
                }
                i += 1;
            }
            return Ok(());
        }
    };
    match &v {
        Value::Nil | Value::Bool(false) => out.extend_from_slice(&ms.src[s..e]),
        Value::Str(x) => out.extend_from_slice(x),
        Value::Int(_) | Value::Float(_) => out.extend_from_slice(tostring_plain(&v).as_bytes()),
        other => {
            return Err(l.native_error(format!("invalid replacement value (a {})", other.type_name())));
        }
    }
    Ok(())
}

fn s_gsub(l: &mut Lua, base: usize) -> R<usize> {
    let src = l.check_str(base, 0, "gsub")?;
    let p = l.check_str(base, 1, "gsub")?;
    let repl = l.arg(base, 2).clone();
    match &repl {
        Value::Str(_) | Value::Int(_) | Value::Float(_) | Value::Table(_) => {}
        f if f.is_function() => {}
        _ => {
            return Err(l.arg_error(2, "gsub", "string/function/table expected"));
        }
    }
    let srcl = src.len();
    let max_s = l.opt_int(base, 3, "gsub", srcl as i64 + 1)?;
    let anchor = p.first() == Some(&b'^');
    let pat: &[u8] = if anchor { &p[1..] } else { &p };
    let mut ms = MatchState::new(&src, pat);
    let mut out: Vec<u8> = Vec::new();
    let mut s = 0usize;
    let mut n: i64 = 0;
    let mut lastmatch: Option<usize> = None;
    begin(l, &mut ms);
    while n < max_s {
        ms.reprep();
        let r = ms.do_match(s, 0).map_err(|m| match_err(l, m))?;
        charge(l, &mut ms)?;
        l.tick()?;
        match r {
            Some(e) if Some(e) != lastmatch => {
                n += 1;
                add_value(l, &ms, &mut out, s, e, &repl)?;
                s = e;
                lastmatch = Some(e);
            }
            _ => {
                if s < srcl {
                    out.push(src[s]);
                    s += 1;
                } else {
                    break;
                }
            }
        }
        if anchor {
            break;
        }
        if out.len() > MAX_STRING {
            return Err(mem_error(l));
        }
    }
    if s < srcl {
        out.extend_from_slice(&src[s..]);
    }
    l.ret2(base, Value::bytes(out), Value::Int(n))
}

// ---------------------------------------------------------------------------
// string.format

fn fmt_hexfloat(x: f64, upper: bool, prec: Option<usize>) -> String {
    // body without sign
    let bits = x.abs().to_bits();
    let exp = ((bits >> 52) & 0x7ff) as i64;
    let mut mant = bits & ((1u64 << 52) - 1);
    let (lead, e) = if exp == 0 {
        if mant == 0 {
            (0u64, 0i64)
        } else {
            (0u64, -1022i64)
        }
    } else {
        (1u64, exp - 1023)
    };
    let mut lead = lead;
    let mut digits = 13usize;
    if let Some(p) = prec {
        if p < 13 {
            // round to p hex digits (round half to even)
            let shift = (13 - p) * 4;
            let full = (lead << 52) | mant;
            let rem = full & ((1u64 << shift) - 1);
            let mut q = full >> shift;
            let half = 1u64 << (shift - 1);
            if rem > half || (rem == half && (q & 1) == 1) {
                q += 1;
            }
            let full = q << shift;
            lead = full >> 52;
            mant = full & ((1u64 << 52) - 1);
            digits = p;
        }
    }
    let mut hex = format!("{:013x}", mant);
    hex.truncate(digits.min(13));
    match prec {
        None => {
            while hex.ends_with('0') {
                hex.pop();
            }
        }
        Some(p) => {
            while hex.len() < p {
                hex.push('0');
            }
        }
    }
    let mut s = format!("0x{}", lead);
    if !hex.is_empty() {
        s.push('.');
        s.push_str(&hex);
    }
    s.push_str(&format!("p{}{}", if e < 0 { '-' } else { '+' }, e.abs()));
    if upper {
        s.to_ascii_uppercase()
    } else {
        s
    }
}

fn format_int(n: i64, conv: u8, spec: &Spec) -> String {
    let (neg, mut digits) = match conv {
        b'd' | b'i' => (n < 0, (n as i128).unsigned_abs().to_string()),
        b'u' => (false, (n as u64).to_string()),
        b'o' => (false, format!("{:o}", n as u64)),
        b'x' => (false, format!("{:x}", n as u64)),
        _ => (false, format!("{:X}", n as u64)),
    };
    if let Some(p) = spec.prec {
        if p == 0 && n == 0 {
            digits.clear();
        }
        while digits.len() < p {
            digits.insert(0, '0');
        }
    }
    if spec.alt {
        match conv {
            b'o' if !digits.starts_with('0') => digits.insert(0, '0'),
            b'x' if n != 0 => digits.insert_str(0, "0x"),
            b'X' if n != 0 => digits.insert_str(0, "0X"),
            _ => {}
        }
    }
    let mut sp = *spec;
    if !matches!(conv, b'd' | b'i') {
        sp.plus = false;
        sp.space = false;
    }
    // zero padding goes between a "0x" prefix and the digits
    if sp.zero && !sp.minus && spec.prec.is_none() && spec.alt && matches!(conv, b'x' | b'X') && n != 0 {
        let body = &digits[2..];
        let total = sp.width;
        let mut b = body.to_string();
        while b.len() + 2 < total {
            b.insert(0, '0');
        }
        return format!("{}{}", &digits[..2], b);
    }
    pad_number(neg, &digits, &sp, spec.prec.is_none())
}

fn add_quoted(out: &mut Vec<u8>, s: &[u8]) {
    out.push(b'"');
    let mut i = 0;
    while i < s.len() {
        let c = s[i];
        if c == b'"' || c == b'\\' || c == b'\n' {
            out.push(b'\\');
            out.push(c);
        } else if c == 0 || c.is_ascii_control() {
            let next_digit = s.get(i + 1).map(|d| d.is_ascii_digit()).unwrap_or(false);
            if !next_digit {
                out.extend_from_slice(format!("\\{}", c).as_bytes());
            } else {
                out.extend_from_slice(format!("\\{:03}", c).as_bytes());
            }
        } else {
            out.push(c);
        }
        i += 1;
    }
    out.push(b'"');
}

fn s_format(l: &mut Lua, base: usize) -> R<usize> {
    let fmt = l.check_str(base, 0, "format")?;
    let mut out: Vec<u8> = Vec::with_capacity(fmt.len() + 16);
    let mut arg = 0usize;
    let mut i = 0;
    let n = fmt.len();
    while i < n {
        let c = fmt[i];
        i += 1;
        if c != L_ESC {
            out.push(c);
            continue;
        }
        if i < n && fmt[i] == L_ESC {
            out.push(L_ESC);
            i += 1;
            continue;
        }
        // format item
        arg += 1;
        if !l.has_arg(base, arg) {
            return Err(l.arg_error(arg, "format", "no value"));
        }
        let mut spec = Spec::default();
        let fstart = i;
        while i < n && b"-+ #0".contains(&fmt[i]) {
            match fmt[i] {
                b'-' => spec.minus = true,
                b'+' => spec.plus = true,
                b' ' => spec.space = true,
                b'#' => spec.alt = true,
                _ => spec.zero = true,
            }
            i += 1;
        }
        if i - fstart >= 6 {
            return Err(l.native_error("invalid format (repeated flags)"));
        }
        let mut width = 0usize;
        let mut wd = 0;
        while i < n && fmt[i].is_ascii_digit() && wd < 2 {
            width = width * 10 + (fmt[i] - b'0') as usize;
            i += 1;
            wd += 1;
        }
        spec.width = width;
        if i < n && fmt[i] == b'.' {
            i += 1;
            let mut p = 0usize;
            let mut pd = 0;
            while i < n && fmt[i].is_ascii_digit() && pd < 2 {
                p = p * 10 + (fmt[i] - b'0') as usize;
                i += 1;
                pd += 1;
            }
            spec.prec = Some(p);
        }
        if i < n && fmt[i].is_ascii_digit() {
            return Err(l.native_error("invalid format (width or precision too long)"));
        }
        let conv = if i < n { fmt[i] } else { 0 };
        i += 1;
        match conv {
            b'c' => {
                let v = l.check_int(base, arg, "format")?;
                let body = [v as u8];
                let mut padded: Vec<u8> = Vec::new();
                if spec.width > 1 && !spec.minus {
                    padded.resize(spec.width - 1, b' ');
                }
                padded.extend_from_slice(&body);
                if spec.width > 1 && spec.minus {
                    padded.resize(spec.width, b' ');
                }
                out.extend_from_slice(&padded);
            }
            b'd' | b'i' | b'o' | b'u' | b'x' | b'X' => {
                let v = l.check_int(base, arg, "format")?;
                out.extend_from_slice(format_int(v, conv, &spec).as_bytes());
            }
            b'a' | b'A' => {
                let v = l.check_num(base, arg, "format")?;
                let s = if v.is_finite() {
                    let body = fmt_hexfloat(v, conv == b'A', spec.prec);
                    pad_number(v.is_sign_negative(), &body, &spec, true)
                } else {
                    format_float(v, if conv == b'A' { b'E' } else { b'e' }, &spec)
                };
                out.extend_from_slice(s.as_bytes());
            }
            b'e' | b'E' | b'f' | b'F' | b'g' | b'G' => {
                let v = l.check_num(base, arg, "format")?;
                if spec.prec.unwrap_or(0) > 99 || spec.width > 99 {
                    return Err(l.native_error("invalid format (width or precision too long)"));
                }
                out.extend_from_slice(format_float(v, conv, &spec).as_bytes());
            }
            b'q' => match l.arg(base, arg).clone() {
                Value::Str(s) => add_quoted(&mut out, &s),
                Value::Int(i) => {
                    if i == i64::MIN {
                        out.extend_from_slice(b"0x8000000000000000");
                    } else {
                        out.extend_from_slice(i.to_string().as_bytes());
                    }
                }
                Value::Float(f) => {
                    let s = if f == f.floor() && f.is_finite() && f.abs() < 1e15 {
                        // integral floats are written with "%lld" + ".0"? real Lua uses "%a"
                        let body = fmt_hexfloat(f, false, None);
                        if f.is_sign_negative() {
                            format!("-{}", body)
                        } else {
                            body
                        }
                    } else if f.is_finite() {
                        let body = fmt_hexfloat(f, false, None);
                        if f.is_sign_negative() {
                            format!("-{}", body)
                        } else {
                            body
                        }
                    } else if f.is_nan() {
                        "(0/0)".to_string()
                    } else if f > 0.0 {
                        "1e9999".to_string()
                    } else {
                        "-1e9999".to_string()
                    };
                    out.extend_from_slice(s.as_bytes());
                }
                v @ (Value::Nil | Value::Bool(_)) => out.extend_from_slice(tostring_plain(&v).as_bytes()),
                _ => return Err(l.arg_error(arg, "format", "value has no literal form")),
            },
            b's' => {
                let v = l.arg(base, arg).clone();
                let s = l.tostring(&v)?;
                if spec.prec.is_none() && spec.width == 0 {
                    out.extend_from_slice(&s);
                } else {
                    if s.contains(&0) && (spec.prec.is_some() || spec.width > 0) && s.len() < 100 {
                        return Err(l.arg_error(arg, "format", "string contains zeros"));
                    }
                    let mut body: &[u8] = &s;
                    if let Some(p) = spec.prec {
                        if body.len() > p {
                            body = &body[..p];
                        }
                    }
                    if spec.prec.is_none() && s.len() >= 100 {
                        out.extend_from_slice(&s);
                    } else {
                        let pad = spec.width.saturating_sub(body.len());
                        if !spec.minus {
                            out.extend(std::iter::repeat(b' ').take(pad));
                        }
                        out.extend_from_slice(body);
                        if spec.minus {
                            out.extend(std::iter::repeat(b' ').take(pad));
                        }
                    }
                }
            }
            other => {
                let ch = if other == 0 { String::new() } else { (other as char).to_string() };
                return Err(l.native_error(format!("invalid option '%{}' to 'format'", ch)));
            }
        }
        if out.len() > MAX_STRING {
            return Err(mem_error(l));
        }
    }
    let _ = (tofloat, tointeger);
    l.ret1(base, Value::bytes(out))
}

pub fn open_string(l: &mut Lua) -> TableRef {
    let mut s = Table::with_capacity(0, 20);
    reg(&mut s, "byte", native!("string.byte", s_byte));
    reg(&mut s, "char", native!("string.char", s_char));
    reg(&mut s, "find", native!("string.find", s_find));
    reg(&mut s, "format", native!("string.format", s_format));
    reg(&mut s, "gmatch", native!("string.gmatch", s_gmatch));
    reg(&mut s, "gsub", native!("string.gsub", s_gsub));
    reg(&mut s, "len", native!("string.len", s_len));
    reg(&mut s, "lower", native!("string.lower", s_lower));
    reg(&mut s, "match", native!("string.match", s_match));
    reg(&mut s, "rep", native!("string.rep", s_rep));
    reg(&mut s, "reverse", native!("string.reverse", s_reverse));
    reg(&mut s, "sub", native!("string.sub", s_sub));
    reg(&mut s, "upper", native!("string.upper", s_upper));
    let s = l.new_table(s);
    reg(&mut l.globals.borrow_mut(), "string", Value::Table(s.clone()));
    let mut meta = Table::with_capacity(0, 1);
    reg(&mut meta, "__index", Value::Table(s.clone()));
    let meta = l.new_table(meta);
    l.string_meta = Some(meta);
    s
}
