//! The tree-walking evaluator: state, calls, statements, expressions.

use std::cell::RefCell;
use std::rc::{Rc, Weak};
use std::sync::Arc;

use crate::ast::*;
use crate::value::*;

#[derive(Clone, Copy, Debug, PartialEq, Eq)]
pub enum ErrorKind {
    Runtime,
    Budget,
    StackOverflow,
    /// `os.exit` was called (the code is in the error value)
    Exit,
}

pub struct LuaErrInner {
    pub kind: ErrorKind,
    pub value: Value,
    pub traceback: String,
}

pub type R<T> = Result<T, Box<LuaErrInner>>;

#[derive(Clone, Copy)]
pub struct CallInfo {
    pub is_lua: bool,
    pub line: u32,
    pub name_id: u32,
}

pub struct Frame<'a> {
    pub base: usize,
    pub cl: &'a Closure,
    pub proto: &'a FuncProto,
    pub inst: &'a Instance,
    pub va_start: usize,
    pub va_len: usize,
}

pub enum Flow {
    Normal,
    Break,
    /// return values are `stack[start..]`
    Return(usize),
    Goto(u32),
    /// `stack[start]` is the callee, arguments follow
    TailCall(usize),
}

pub struct Lua {
    pub stack: Vec<Value>,
    pub globals: TableRef,
    pub string_meta: Option<TableRef>,
    pub ci: Vec<CallInfo>,
    pub used: u64,
    pub limit: u64,
    pub max_depth: usize,
    pub native_stack_limit: usize,
    pub stack_anchor: usize,
    pub out: Vec<u8>,
    pub chunk_names: Vec<Rc<str>>,
    pub require_handler: Option<Box<dyn FnMut(&str) -> Result<(), String>>>,
    tables: Vec<Weak<RefCell<Table>>>,
    tables_threshold: usize,
    cells: Vec<Weak<UpCell>>,
    cells_threshold: usize,
    pub rng: u64,
    pub env_cell: Rc<UpCell>,
    /// flush `out` to stdout when it grows (used by the binary)
    pub stream_stdout: bool,
    /// call-site name of the native function being called (for 'bad argument' messages)
    pub call_name: Option<LStr>,
    pub call_is_method: bool,
    pub compat_ipairs: bool,
    for_iter_name: LStr,
}

/// native stack needed in the worst case by one Lua-level call (deeply
/// nested expressions / blocks inside one function)
const NATIVE_MARGIN: usize = 512 * 1024;

#[inline(never)]
fn stack_addr() -> usize {
    let x = 0u8;
    &x as *const u8 as usize
}

/// Lowest address of the current thread's stack (glibc only), cached per thread.
#[cfg(all(target_os = "linux", target_env = "gnu"))]
fn thread_stack_low() -> Option<usize> {
    #[repr(C, align(16))]
    struct Attr([u8; 128]); // pthread_attr_t is 56 bytes on 64-bit glibc
    extern "C" {
        fn pthread_self() -> usize;
        fn pthread_getattr_np(thread: usize, attr: *mut Attr) -> i32;
        fn pthread_attr_getstack(attr: *const Attr, addr: *mut *mut u8, size: *mut usize) -> i32;
        fn pthread_attr_destroy(attr: *mut Attr) -> i32;
    }
    thread_local! {
        static LOW: std::cell::Cell<Option<Option<usize>>> = const { std::cell::Cell::new(None) };
    }
    LOW.with(|c| {
        if let Some(v) = c.get() {
            return v;
        }
        // SAFETY: plain glibc calls on a zero-initialised, sufficiently large and
        // aligned attribute object that is destroyed before returning.
        let v = unsafe {
            let mut a = Attr([0; 128]);
            if pthread_getattr_np(pthread_self(), &mut a) != 0 {
                None
            } else {
                let mut addr: *mut u8 = std::ptr::null_mut();
                let mut size: usize = 0;
                let r = pthread_attr_getstack(&a, &mut addr, &mut size);
                pthread_attr_destroy(&mut a);
                if r != 0 || addr.is_null() {
                    None
                } else {
                    Some(addr as usize)
                }
            }
        };
        c.set(Some(v));
        v
    })
}

#[cfg(not(all(target_os = "linux", target_env = "gnu")))]
fn thread_stack_low() -> Option<usize> {
    None
}

impl Lua {
    pub fn new_state() -> Lua {
        let globals = Rc::new(RefCell::new(Table::with_capacity(0, 250)));
        let env_cell = UpCell::new(Value::Table(globals.clone()));
        let mut lua = Lua {
            stack: Vec::with_capacity(256),
            globals,
            string_meta: None,
            ci: Vec::with_capacity(64),
            used: 0,
            limit: u64::MAX,
            max_depth: 180,
            native_stack_limit: 48 * 1024 * 1024,
            stack_anchor: 0,
            out: Vec::new(),
            chunk_names: Vec::new(),
            require_handler: None,
            tables: Vec::new(),
            tables_threshold: 4096,
            cells: Vec::new(),
            cells_threshold: 4096,
            rng: 0x2545_F491_4F6C_DD1D,
            env_cell,
            stream_stdout: false,
            call_name: None,
            call_is_method: false,
            compat_ipairs: false,
            for_iter_name: Rc::from(&b"for iterator"[..]),
        };
        crate::stdlib::open_libs(&mut lua);
        lua
    }

    // ----- allocation registry (cycle breaking at teardown) ------------------

    pub fn new_table(&mut self, t: Table) -> TableRef {
        let r = Rc::new(RefCell::new(t));
        if self.tables.len() >= self.tables_threshold {
            self.tables.retain(|w| w.strong_count() > 0);
            self.tables_threshold = (self.tables.len() * 2).max(4096);
        }
        self.tables.push(Rc::downgrade(&r));
        r
    }

    pub fn new_cell(&mut self, v: Value) -> Rc<UpCell> {
        let c = UpCell::new(v);
        if self.cells.len() >= self.cells_threshold {
            self.cells.retain(|w| w.strong_count() > 0);
            self.cells_threshold = (self.cells.len() * 2).max(4096);
        }
        self.cells.push(Rc::downgrade(&c));
        c
    }

    // ----- errors ---------------------------------------------------------------

    /// `luaL_where(level)`: level 0 = running function, 1 = its caller ...
    pub fn where_(&self, level: usize) -> String {
        let n = self.ci.len();
        if level < n {
            let ci = &self.ci[n - 1 - level];
            if ci.is_lua {
                return format!("{}:{}: ", self.chunk_names[ci.name_id as usize], ci.line);
            }
        }
        String::new()
    }

    pub fn make_error(&self, kind: ErrorKind, value: Value) -> Box<LuaErrInner> {
        Box::new(LuaErrInner { kind, value, traceback: String::new() })
    }

    /// `luaG_runerror`: position of the running function if it is a Lua function
    pub fn rt_error(&self, msg: impl AsRef<str>) -> Box<LuaErrInner> {
        let m = format!("{}{}", self.where_(0), msg.as_ref());
        self.make_error(ErrorKind::Runtime, Value::string(m))
    }

    /// `luaL_error` from a native function: position of the caller
    pub fn native_error(&self, msg: impl AsRef<str>) -> Box<LuaErrInner> {
        let m = format!("{}{}", self.where_(1), msg.as_ref());
        self.make_error(ErrorKind::Runtime, Value::string(m))
    }

    #[inline]
    pub fn set_line(&mut self, line: u32) {
        if let Some(ci) = self.ci.last_mut() {
            ci.line = line;
        }
    }

    #[inline]
    pub fn tick(&mut self) -> R<()> {
        self.used += 1;
        if self.used > self.limit {
            return Err(self.budget_error());
        }
        Ok(())
    }

    /// charge `n` instructions at once (long-running native loops)
    #[inline]
    pub fn tick_n(&mut self, n: u64) -> R<()> {
        self.used = self.used.saturating_add(n);
        if self.used > self.limit {
            return Err(self.budget_error());
        }
        Ok(())
    }

    #[cold]
    fn budget_error(&self) -> Box<LuaErrInner> {
        self.make_error(ErrorKind::Budget, Value::string("instruction budget exhausted".to_string()))
    }

    #[cold]
    fn overflow_error(&self) -> Box<LuaErrInner> {
        let m = format!("{}stack overflow", self.where_(0));
        self.make_error(ErrorKind::StackOverflow, Value::string(m))
    }

    #[inline]
    pub fn push_ci(&mut self, is_lua: bool, name_id: u32) -> R<()> {
        if self.ci.len() >= self.max_depth {
            return Err(self.overflow_error());
        }
        if self.stack_anchor != 0 {
            let here = stack_addr();
            let used = self.stack_anchor.wrapping_sub(here);
            if used < (usize::MAX >> 1) && used + NATIVE_MARGIN > self.native_stack_limit {
                return Err(self.overflow_error());
            }
        }
        self.ci.push(CallInfo { is_lua, line: 0, name_id });
        Ok(())
    }

    // ----- calls -------------------------------------------------------------------

    /// Call `f` with the arguments `stack[abase..]`. On return the results
    /// are `stack[abase..abase+n]` and the stack is `abase+n` long.
    pub fn call_value(&mut self, f: Value, abase: usize) -> R<usize> {
        match f {
            Value::Func(cl) => self.call_lua(cl, abase),
            Value::Native(nf) => {
                self.tick()?;
                self.push_ci(false, 0)?;
                let n = (nf.f)(self, abase)?;
                self.ci.pop();
                Ok(n)
            }
            Value::NativeC(nc) => {
                self.tick()?;
                self.push_ci(false, 0)?;
                let n = (nc.f)(self, abase, &nc)?;
                self.ci.pop();
                Ok(n)
            }
            other => {
                let h = self.metamethod(&other, b"__call");
                if !h.is_function() {
                    return Err(self.rt_error(format!("attempt to call a {} value", other.type_name())));
                }
                self.stack.insert(abase, other);
                self.call_value(h, abase)
            }
        }
    }

    /// Convenience for natives / metamethods: call with explicit arguments,
    /// return the first result.
    pub fn call1(&mut self, f: Value, args: &[Value]) -> R<Value> {
        self.call_name = None;
        let abase = self.stack.len();
        self.stack.extend_from_slice(args);
        let n = self.call_value(f, abase)?;
        let v = if n > 0 { std::mem::take(&mut self.stack[abase]) } else { Value::Nil };
        self.stack.truncate(abase);
        Ok(v)
    }

    fn call_lua(&mut self, cl: Rc<Closure>, abase: usize) -> R<usize> {
        let mut cl = cl;
        self.push_ci(true, cl.inst.name_id)?;
        loop {
            self.tick()?;
            let next: Value;
            {
                let inst: &Instance = &cl.inst;
                let proto = &inst.chunk.protos[cl.proto as usize];
                let nargs = self.stack.len() - abase;
                let np = proto.nparams as usize;
                let base;
                let mut va_start = 0;
                let mut va_len = 0;
                if proto.is_vararg {
                    base = abase + nargs;
                    for i in 0..np {
                        let v = if i < nargs { std::mem::take(&mut self.stack[abase + i]) } else { Value::Nil };
                        self.stack.push(v);
                    }
                    if nargs > np {
                        va_start = abase + np;
                        va_len = nargs - np;
                    }
                } else {
                    base = abase;
                    if nargs > np {
                        self.stack.truncate(abase + np);
                    }
                }
                self.stack.resize(base + proto.nslots as usize, Value::Nil);
                for i in 0..np {
                    if proto.captured[i] {
                        let v = std::mem::take(&mut self.stack[base + i]);
                        let c = self.new_cell(v);
                        self.stack[base + i] = Value::Cell(c);
                    }
                }
                let fr = Frame { base, cl: &*cl, proto, inst, va_start, va_len };
                match self.exec_block(&fr, &proto.body)? {
                    Flow::Return(start) => {
                        let n = self.stack.len() - start;
                        for i in 0..n {
                            self.stack.swap(abase + i, start + i);
                        }
                        self.stack.truncate(abase + n);
                        self.ci.pop();
                        return Ok(n);
                    }
                    Flow::TailCall(start) => {
                        let f = std::mem::take(&mut self.stack[start]);
                        let n = self.stack.len() - start - 1;
                        for i in 0..n {
                            self.stack.swap(abase + i, start + 1 + i);
                        }
                        self.stack.truncate(abase + n);
                        next = f;
                    }
                    _ => {
                        self.stack.truncate(abase);
                        self.ci.pop();
                        return Ok(0);
                    }
                }
            }
            match next {
                Value::Func(ncl) => {
                    if let Some(ci) = self.ci.last_mut() {
                        ci.name_id = ncl.inst.name_id;
                    }
                    cl = ncl;
                }
                other => {
                    self.ci.pop();
                    return self.call_value(other, abase);
                }
            }
        }
    }

    /// Run a chunk's main function (no arguments, results discarded).
    pub fn run_main(&mut self, chunk: &Arc<ChunkInner>) -> R<()> {
        let cl = self.load_main(chunk.clone());
        self.stack.clear();
        self.ci.clear();
        self.stack_anchor = stack_addr();
        // never trust the configured limit beyond what this thread really has
        let configured = self.native_stack_limit;
        if let Some(low) = thread_stack_low() {
            if self.stack_anchor > low {
                let avail = (self.stack_anchor - low).saturating_sub(64 * 1024);
                self.native_stack_limit = configured.min(avail);
            }
        }
        let r = self.call_value(Value::Func(cl), 0);
        self.native_stack_limit = configured;
        self.stack.clear();
        self.ci.clear();
        r.map(|_| ())
    }

    /// Instantiate a chunk in this state and return its main closure.
    pub fn load_main(&mut self, chunk: Arc<ChunkInner>) -> Rc<Closure> {
        let name_id = self.chunk_names.len() as u32;
        self.chunk_names.push(Rc::from(chunk.name.as_str()));
        let main = chunk.main;
        let inst = Rc::new(Instance::new(chunk, name_id));
        Rc::new(Closure { inst, proto: main, upvals: vec![self.env_cell.clone()].into_boxed_slice() })
    }

    fn make_closure(&mut self, fr: &Frame, pidx: u32) -> Value {
        let proto = &fr.inst.chunk.protos[pidx as usize];
        let mut ups = Vec::with_capacity(proto.upvals.len());
        for d in proto.upvals.iter() {
            if d.from_parent_local {
                let idx = fr.base + d.index as usize;
                let c = match &self.stack[idx] {
                    Value::Cell(c) => c.clone(),
                    _ => {
                        // not expected (captured variables are always cells)
                        let v = std::mem::take(&mut self.stack[idx]);
                        let c = self.new_cell(v);
                        self.stack[idx] = Value::Cell(c.clone());
                        c
                    }
                };
                ups.push(c);
            } else {
                ups.push(fr.cl.upvals[d.index as usize].clone());
            }
        }
        Value::Func(Rc::new(Closure { inst: fr.cl.inst.clone(), proto: pidx, upvals: ups.into_boxed_slice() }))
    }

    // ----- variables -----------------------------------------------------------------

    #[inline]
    fn get_local(&self, idx: usize) -> Value {
        match &self.stack[idx] {
            Value::Cell(c) => c.get(),
            v => v.clone(),
        }
    }

    #[inline]
    fn set_local(&mut self, idx: usize, v: Value) {
        if let Value::Cell(c) = &self.stack[idx] {
            c.set(v);
        } else {
            self.stack[idx] = v;
        }
    }

    #[inline]
    fn declare(&mut self, fr: &Frame, slot: usize, var: u32, v: Value) {
        let v = if fr.proto.captured[var as usize] { Value::Cell(self.new_cell(v)) } else { v };
        self.stack[fr.base + slot] = v;
    }

    fn get_global(&mut self, fr: &Frame, k: u32) -> R<Value> {
        let name = fr.inst.const_str(k);
        {
            let g = self.globals.borrow();
            let slot = fr.inst.gcache[k as usize].get() as usize;
            if let Some(e) = g.entries.get(slot) {
                if let Value::Str(s) = &e.key {
                    if (Rc::ptr_eq(s, name) || s[..] == name[..]) && !e.val.is_nil() {
                        return Ok(e.val.clone());
                    }
                }
            }
            if let Some(ix) = g.find_str(name) {
                fr.inst.gcache[k as usize].set(ix as u32);
                let v = &g.entries[ix].val;
                if !v.is_nil() {
                    return Ok(v.clone());
                }
            }
            if g.meta.is_none() {
                return Ok(Value::Nil);
            }
        }
        let g = Value::Table(self.globals.clone());
        self.index_value(g, &Value::Str(name.clone()))
    }

    fn set_global(&mut self, fr: &Frame, k: u32, v: Value, line: u32) -> R<()> {
        let name = fr.inst.const_str(k);
        {
            let mut g = self.globals.borrow_mut();
            let slot = fr.inst.gcache[k as usize].get() as usize;
            let mut hit = false;
            if let Some(e) = g.entries.get(slot) {
                if let Value::Str(s) = &e.key {
                    if (Rc::ptr_eq(s, name) || s[..] == name[..]) && !e.val.is_nil() {
                        hit = true;
                    }
                }
            }
            if hit {
                g.set_entry_val(slot, v);
                return Ok(());
            }
            if g.meta.is_none() {
                let ix = g.set_str(name, v);
                if ix != usize::MAX {
                    fr.inst.gcache[k as usize].set(ix as u32);
                }
                return Ok(());
            }
        }
        self.set_line(line);
        let g = Value::Table(self.globals.clone());
        self.set_index_value(g, Value::Str(name.clone()), v)
    }

    // ----- statements ---------------------------------------------------------------

    pub fn exec_block(&mut self, fr: &Frame, b: &Block) -> R<Flow> {
        let n = b.stmts.len();
        let mut i = 0;
        while i < n {
            match self.exec_stmt(fr, &b.stmts[i])? {
                Flow::Normal => i += 1,
                Flow::Goto(l) => {
                    let mut found = false;
                    for (id, idx) in b.labels.iter() {
                        if *id == l {
                            i = *idx as usize;
                            found = true;
                            break;
                        }
                    }
                    if !found {
                        return Ok(Flow::Goto(l));
                    }
                    self.tick()?;
                }
                other => return Ok(other),
            }
        }
        Ok(Flow::Normal)
    }

    /// push the values of an expression list (last one expanded)
    fn push_explist(&mut self, fr: &Frame, es: &[Expr]) -> R<()> {
        let n = es.len();
        for (i, e) in es.iter().enumerate() {
            if i + 1 == n && e.is_multi() {
                self.eval_multi(fr, e)?;
            } else {
                let v = self.eval(fr, e)?;
                self.stack.push(v);
            }
        }
        Ok(())
    }

    fn eval_multi(&mut self, fr: &Frame, e: &Expr) -> R<()> {
        match e {
            Expr::Call(c) => {
                self.tick()?;
                let abase = self.stack.len();
                self.do_call(fr, c, abase)?;
                Ok(())
            }
            Expr::Vararg => {
                self.tick()?;
                self.stack.extend_from_within(fr.va_start..fr.va_start + fr.va_len);
                Ok(())
            }
            _ => {
                let v = self.eval(fr, e)?;
                self.stack.push(v);
                Ok(())
            }
        }
    }

    /// evaluate callee + arguments at `abase` and call; results at `abase..`
    fn do_call(&mut self, fr: &Frame, c: &CallExpr, abase: usize) -> R<usize> {
        let f = self.prepare_call(fr, c)?;
        self.call_value(f, abase)
    }

    /// evaluates callee and pushes the arguments; returns a callable value
    /// (a function, or a value with a `__call` handler)
    fn prepare_call(&mut self, fr: &Frame, c: &CallExpr) -> R<Value> {
        let f = match c.method {
            Some(m) => {
                let obj = self.eval(fr, &c.func)?;
                let key = Value::Str(fr.inst.const_str(m).clone());
                let f = self.index_checked(fr, obj.clone(), &key, &c.func, c.line)?;
                self.stack.push(obj);
                f
            }
            None => self.eval(fr, &c.func)?,
        };
        self.push_explist(fr, &c.args)?;
        self.set_line(c.line);
        if let Value::Native(_) | Value::NativeC(_) = &f {
            self.call_is_method = c.method.is_some();
            self.call_name = match (c.method, &c.func) {
                (Some(m), _) => Some(fr.inst.const_str(m).clone()),
                (None, Expr::Local(_, n)) | (None, Expr::Global(n)) | (None, Expr::Field(_, n, _)) => {
                    Some(fr.inst.const_str(*n).clone())
                }
                (None, Expr::Upval(i)) => Some(fr.inst.const_str(fr.proto.upvals[*i as usize].name).clone()),
                _ => None,
            };
        }
        if !f.is_function() && !self.metamethod(&f, b"__call").is_function() {
            let info = match c.method {
                Some(m) => format!(" (method '{}')", String::from_utf8_lossy(fr.inst.const_str(m))),
                None => self.varinfo(fr, &c.func),
            };
            return Err(self.rt_error(format!("attempt to call a {} value{}", f.type_name(), info)));
        }
        Ok(f)
    }

    fn exec_stmt(&mut self, fr: &Frame, s: &Stmt) -> R<Flow> {
        self.tick()?;
        match s {
            Stmt::Nop => {}
            Stmt::Local1 { slot, var, expr } => {
                let v = self.eval(fr, expr)?;
                self.declare(fr, *slot as usize, *var, v);
            }
            Stmt::Local { slot, n, var, exprs } => {
                let start = self.stack.len();
                self.push_explist(fr, exprs)?;
                let n = *n as usize;
                self.stack.resize(start + n, Value::Nil);
                for i in 0..n {
                    let v = std::mem::take(&mut self.stack[start + i]);
                    self.declare(fr, *slot as usize + i, *var + i as u32, v);
                }
                self.stack.truncate(start);
            }
            Stmt::LocalFunction { slot, var, proto } => {
                self.declare(fr, *slot as usize, *var, Value::Nil);
                let f = self.make_closure(fr, *proto);
                self.set_local(fr.base + *slot as usize, f);
            }
            Stmt::Assign1 { target, expr, line } => match target {
                Expr::Local(s, _) => {
                    let v = self.eval(fr, expr)?;
                    self.set_local(fr.base + *s as usize, v);
                }
                Expr::Upval(i) => {
                    let v = self.eval(fr, expr)?;
                    fr.cl.upvals[*i as usize].set(v);
                }
                Expr::Global(k) => {
                    let v = self.eval(fr, expr)?;
                    self.set_global(fr, *k, v, *line)?;
                }
                Expr::Field(o, k, l) => {
                    // locals / upvalues are register references: read at store time
                    let late = matches!(**o, Expr::Local(..) | Expr::Upval(_));
                    let mut ov = if late { Value::Nil } else { self.eval(fr, o)? };
                    let v = self.eval(fr, expr)?;
                    if late {
                        ov = self.eval(fr, o)?;
                    }
                    let key = Value::Str(fr.inst.const_str(*k).clone());
                    self.set_index_checked(fr, ov, key, v, o, *l)?;
                }
                Expr::Index(ok, l) => {
                    let late_o = matches!(ok.0, Expr::Local(..) | Expr::Upval(_));
                    let late_k = matches!(ok.1, Expr::Local(..));
                    let mut ov = if late_o { Value::Nil } else { self.eval(fr, &ok.0)? };
                    let mut kv = if late_k { Value::Nil } else { self.eval(fr, &ok.1)? };
                    let v = self.eval(fr, expr)?;
                    if late_o {
                        ov = self.eval(fr, &ok.0)?;
                    }
                    if late_k {
                        kv = self.eval(fr, &ok.1)?;
                    }
                    self.set_index_checked(fr, ov, kv, v, &ok.0, *l)?;
                }
                _ => return Err(self.rt_error("cannot assign")),
            },
            Stmt::Assign { targets, exprs, line } => {
                let start = self.stack.len();
                // Operands of indexed targets: expressions are evaluated now; locals and
                // upvalues are register references in real Lua and are read when the store
                // executes - unless a later target of this statement assigns that very
                // variable (then lparser's check_conflict makes an early copy).
                let is_late = |e: &Expr, j: usize, key: bool| -> bool {
                    let same = |t: &Expr| match (e, t) {
                        (Expr::Local(a, _), Expr::Local(b, _)) => a == b,
                        (Expr::Upval(a), Expr::Upval(b)) => a == b,
                        _ => false,
                    };
                    match e {
                        Expr::Local(..) => !targets[j + 1..].iter().any(same),
                        Expr::Upval(_) => !key && !targets[j + 1..].iter().any(same),
                        _ => false,
                    }
                };
                for (j, t) in targets.iter().enumerate() {
                    match t {
                        Expr::Field(o, _, _) => {
                            if !is_late(o, j, false) {
                                let ov = self.eval(fr, o)?;
                                self.stack.push(ov);
                            }
                        }
                        Expr::Index(ok, _) => {
                            if !is_late(&ok.0, j, false) {
                                let ov = self.eval(fr, &ok.0)?;
                                self.stack.push(ov);
                            }
                            if !is_late(&ok.1, j, true) {
                                let kv = self.eval(fr, &ok.1)?;
                                self.stack.push(kv);
                            }
                        }
                        _ => {}
                    }
                }
                let vstart = self.stack.len();
                self.push_explist(fr, exprs)?;
                let n = targets.len();
                self.stack.resize(vstart + n, Value::Nil);
                // assign right to left
                let mut opnd = vstart;
                for (i, t) in targets.iter().enumerate().rev() {
                    let v = std::mem::take(&mut self.stack[vstart + i]);
                    match t {
                        Expr::Local(s, _) => self.set_local(fr.base + *s as usize, v),
                        Expr::Upval(u) => fr.cl.upvals[*u as usize].set(v),
                        Expr::Global(k) => self.set_global(fr, *k, v, *line)?,
                        Expr::Field(o, k, l) => {
                            let ov = if is_late(o, i, false) {
                                self.eval(fr, o)?
                            } else {
                                opnd -= 1;
                                std::mem::take(&mut self.stack[opnd])
                            };
                            let key = Value::Str(fr.inst.const_str(*k).clone());
                            self.set_index_checked(fr, ov, key, v, o, *l)?;
                        }
                        Expr::Index(ok, l) => {
                            let kv = if is_late(&ok.1, i, true) {
                                self.eval(fr, &ok.1)?
                            } else {
                                opnd -= 1;
                                std::mem::take(&mut self.stack[opnd])
                            };
                            let ov = if is_late(&ok.0, i, false) {
                                self.eval(fr, &ok.0)?
                            } else {
                                opnd -= 1;
                                std::mem::take(&mut self.stack[opnd])
                            };
                            self.set_index_checked(fr, ov, kv, v, &ok.0, *l)?;
                        }
                        _ => return Err(self.rt_error("cannot assign")),
                    }
                }
                self.stack.truncate(start);
            }
            Stmt::Call(c) => {
                let abase = self.stack.len();
                self.do_call(fr, c, abase)?;
                self.stack.truncate(abase);
            }
            Stmt::Do(b) => return self.exec_block(fr, b),
            Stmt::While { cond, body } => loop {
                if !self.eval(fr, cond)?.truthy() {
                    break;
                }
                match self.exec_block(fr, body)? {
                    Flow::Normal => {}
                    Flow::Break => break,
                    other => return Ok(other),
                }
                self.tick()?;
            },
            Stmt::Repeat { body, cond } => loop {
                match self.exec_block(fr, body)? {
                    Flow::Normal => {}
                    Flow::Break => break,
                    other => return Ok(other),
                }
                if self.eval(fr, cond)?.truthy() {
                    break;
                }
                self.tick()?;
            },
            Stmt::If { arms, orelse } => {
                for (c, b) in arms.iter() {
                    if self.eval(fr, c)?.truthy() {
                        return self.exec_block(fr, b);
                    }
                }
                if let Some(b) = orelse {
                    return self.exec_block(fr, b);
                }
            }
            Stmt::NumFor { slot, var, start, limit, step, body, line } => {
                return self.exec_numfor(fr, *slot as usize, *var, start, limit, step.as_ref(), body, *line);
            }
            Stmt::GenFor { slot, nvars, var, exprs, body, line } => {
                return self.exec_genfor(fr, *slot as usize, *nvars as usize, *var, exprs, body, *line);
            }
            Stmt::Return { exprs, line } => {
                let start = self.stack.len();
                if exprs.len() == 1 {
                    if let Expr::Call(c) = &exprs[0] {
                        // tail call
                        self.stack.push(Value::Nil);
                        let f = self.prepare_call(fr, c)?;
                        self.stack[start] = f;
                        let _ = line;
                        return Ok(Flow::TailCall(start));
                    }
                }
                self.push_explist(fr, exprs)?;
                return Ok(Flow::Return(start));
            }
            Stmt::Break => return Ok(Flow::Break),
            Stmt::Goto(id) => return Ok(Flow::Goto(fr.proto.goto_targets[*id as usize])),
        }
        Ok(Flow::Normal)
    }

    #[allow(clippy::too_many_arguments)]
    fn exec_numfor(
        &mut self,
        fr: &Frame,
        slot: usize,
        var: u32,
        start: &Expr,
        limit: &Expr,
        step: Option<&Expr>,
        body: &Block,
        line: u32,
    ) -> R<Flow> {
        let init = self.eval(fr, start)?;
        let lim = self.eval(fr, limit)?;
        let stp = match step {
            Some(s) => self.eval(fr, s)?,
            None => Value::Int(1),
        };
        self.set_line(line);
        // integer loop?
        if let (Value::Int(i0), Value::Int(st)) = (&init, &stp) {
            if let Some((ilimit, stopnow)) = self.forlimit(&lim, *st) {
                let st = *st;
                let mut idx = if stopnow { 0 } else { *i0 };
                // forprep subtracts the step, forloop adds it back
                idx = idx.wrapping_sub(st);
                loop {
                    idx = idx.wrapping_add(st);
                    let cont = if 0 < st { idx <= ilimit } else { ilimit <= idx };
                    if !cont {
                        break;
                    }
                    self.declare(fr, slot, var, Value::Int(idx));
                    match self.exec_block(fr, body)? {
                        Flow::Normal => {}
                        Flow::Break => break,
                        other => return Ok(other),
                    }
                    self.tick()?;
                }
                return Ok(Flow::Normal);
            }
        }
        // float loop
        let nlimit = match crate::ops::tofloat(&lim) {
            Some(n) => n,
            None => return Err(self.rt_error("'for' limit must be a number")),
        };
        let nstep = match crate::ops::tofloat(&stp) {
            Some(n) => n,
            None => return Err(self.rt_error("'for' step must be a number")),
        };
        let ninit = match crate::ops::tofloat(&init) {
            Some(n) => n,
            None => return Err(self.rt_error("'for' initial value must be a number")),
        };
        let mut idx = ninit - nstep;
        loop {
            idx += nstep;
            let cont = if 0.0 < nstep { idx <= nlimit } else { nlimit <= idx };
            if !cont {
                break;
            }
            self.declare(fr, slot, var, Value::Float(idx));
            match self.exec_block(fr, body)? {
                Flow::Normal => {}
                Flow::Break => break,
                other => return Ok(other),
            }
            self.tick()?;
        }
        Ok(Flow::Normal)
    }

    /// `forlimit` of lvm.c: Some((limit, stopnow)), None if not a number
    fn forlimit(&self, lim: &Value, step: i64) -> Option<(i64, bool)> {
        if let Some(i) = crate::ops::tointeger_mode(lim, if step < 0 { 2 } else { 1 }) {
            return Some((i, false));
        }
        let n = crate::ops::tofloat(lim)?;
        if 0.0 < n {
            Some((i64::MAX, step < 0))
        } else {
            Some((i64::MIN, step >= 0))
        }
    }

    #[allow(clippy::too_many_arguments)]
    fn exec_genfor(
        &mut self,
        fr: &Frame,
        slot: usize,
        nvars: usize,
        var: u32,
        exprs: &[Expr],
        body: &Block,
        line: u32,
    ) -> R<Flow> {
        let start = self.stack.len();
        self.push_explist(fr, exprs)?;
        self.stack.resize(start + 3, Value::Nil);
        // stack[start] = generator, start+1 = state, start+2 = control
        loop {
            let abase = self.stack.len();
            let f = self.stack[start].clone();
            let s = self.stack[start + 1].clone();
            let c = self.stack[start + 2].clone();
            self.stack.push(s);
            self.stack.push(c);
            self.set_line(line);
            if !f.is_function() && !self.metamethod(&f, b"__call").is_function() {
                return Err(self.rt_error(format!("attempt to call a {} value", f.type_name())));
            }
            if let Value::Native(_) = &f {
                self.call_is_method = false;
                self.call_name = Some(self.for_iter_name.clone());
            }
            self.call_value(f, abase)?;
            self.stack.resize(abase + nvars.max(1), Value::Nil);
            if self.stack[abase].is_nil() {
                self.stack.truncate(abase);
                break;
            }
            self.stack[start + 2] = self.stack[abase].clone();
            for i in 0..nvars {
                let v = std::mem::take(&mut self.stack[abase + i]);
                self.declare(fr, slot + i, var + i as u32, v);
            }
            self.stack.truncate(abase);
            match self.exec_block(fr, body)? {
                Flow::Normal => {}
                Flow::Break => break,
                Flow::Return(rs) => {
                    // return values sit above the loop state: keep them on top
                    return Ok(Flow::Return(rs));
                }
                Flow::TailCall(rs) => return Ok(Flow::TailCall(rs)),
                other => {
                    self.stack.truncate(start);
                    return Ok(other);
                }
            }
            self.tick()?;
        }
        self.stack.truncate(start);
        Ok(Flow::Normal)
    }

    // ----- expressions ---------------------------------------------------------------

    pub fn eval(&mut self, fr: &Frame, e: &Expr) -> R<Value> {
        self.tick()?;
        match e {
            Expr::Nil => Ok(Value::Nil),
            Expr::True => Ok(Value::Bool(true)),
            Expr::False => Ok(Value::Bool(false)),
            Expr::Int(i) => Ok(Value::Int(*i)),
            Expr::Float(f) => Ok(Value::Float(*f)),
            Expr::Str(k) => Ok(Value::Str(fr.inst.const_str(*k).clone())),
            Expr::Vararg => Ok(if fr.va_len > 0 { self.stack[fr.va_start].clone() } else { Value::Nil }),
            Expr::Local(s, _) => Ok(self.get_local(fr.base + *s as usize)),
            Expr::Upval(i) => Ok(fr.cl.upvals[*i as usize].get()),
            Expr::Global(k) => self.get_global(fr, *k),
            Expr::Field(o, k, line) => {
                let ov = self.eval(fr, o)?;
                let name = fr.inst.const_str(*k);
                if let Value::Table(t) = &ov {
                    let t = t.borrow();
                    let v = t.get_str(name);
                    if !v.is_nil() || t.meta.is_none() {
                        return Ok(v);
                    }
                }
                let key = Value::Str(name.clone());
                self.index_checked(fr, ov, &key, o, *line)
            }
            Expr::Index(ok, line) => {
                // table held in a local / upvalue: read after the key (register reference)
                let (ov, kv) = match &ok.0 {
                    Expr::Local(..) | Expr::Upval(_) => {
                        let kv = self.eval(fr, &ok.1)?;
                        (self.eval(fr, &ok.0)?, kv)
                    }
                    _ => {
                        let ov = self.eval(fr, &ok.0)?;
                        (ov, self.eval(fr, &ok.1)?)
                    }
                };
                if let Value::Table(t) = &ov {
                    let t = t.borrow();
                    let v = t.get(&kv);
                    if !v.is_nil() || t.meta.is_none() {
                        return Ok(v);
                    }
                }
                self.index_checked(fr, ov, &kv, &ok.0, *line)
            }
            Expr::Call(c) => {
                let abase = self.stack.len();
                let n = self.do_call(fr, c, abase)?;
                let v = if n > 0 { std::mem::take(&mut self.stack[abase]) } else { Value::Nil };
                self.stack.truncate(abase);
                Ok(v)
            }
            Expr::Function(p) => Ok(self.make_closure(fr, *p)),
            Expr::Bin(op, ab, line) => {
                // A local variable operand is a register reference in real Lua: it is
                // read when the operation executes, i.e. after the other operand.
                let left = match &ab.0 {
                    Expr::Paren(inner) => &**inner,
                    e => e,
                };
                let (a, b) = if let Expr::Local(s, _) = left {
                    let b = self.eval(fr, &ab.1)?;
                    self.tick()?;
                    (self.get_local(fr.base + *s as usize), b)
                } else {
                    let a = self.eval(fr, &ab.0)?;
                    (a, self.eval(fr, &ab.1)?)
                };
                self.binary(fr, *op, a, b, &ab.0, &ab.1, *line)
            }
            Expr::And(ab) => {
                let a = self.eval(fr, &ab.0)?;
                if !a.truthy() {
                    Ok(a)
                } else {
                    self.eval(fr, &ab.1)
                }
            }
            Expr::Or(ab) => {
                let a = self.eval(fr, &ab.0)?;
                if a.truthy() {
                    Ok(a)
                } else {
                    self.eval(fr, &ab.1)
                }
            }
            Expr::Un(op, a, line) => {
                let v = self.eval(fr, a)?;
                self.unary(fr, *op, v, a, *line)
            }
            Expr::Concat(list, line) => {
                let start = self.stack.len();
                for x in list.iter() {
                    let v = self.eval(fr, x)?;
                    self.stack.push(v);
                }
                self.concat_range(fr, start, list, *line)
            }
            Expr::Paren(inner) => self.eval(fr, inner),
            Expr::Table(tc) => self.construct(fr, tc),
        }
    }

    fn construct(&mut self, fr: &Frame, tc: &TableCons) -> R<Value> {
        if tc.hash.is_empty() {
            // pure array constructor
            let start = self.stack.len();
            self.push_explist(fr, &tc.array)?;
            let arr: Vec<Value> = self.stack.drain(start..).collect();
            let t = self.new_table(Table::from_array(arr));
            return Ok(Value::Table(t));
        }
        let start = self.stack.len();
        let mut pairs: Vec<(Value, Value)> = Vec::with_capacity(tc.hash.len());
        let (mut ai, mut hi) = (0, 0);
        let na = tc.array.len();
        for &is_arr in tc.order.iter() {
            if is_arr {
                let e = &tc.array[ai];
                ai += 1;
                if ai == na && e.is_multi() {
                    self.eval_multi(fr, e)?;
                } else {
                    let v = self.eval(fr, e)?;
                    self.stack.push(v);
                }
            } else {
                let (k, v) = &tc.hash[hi];
                hi += 1;
                let kv = self.eval(fr, k)?;
                let bad = match &kv {
                    Value::Nil => Some(KeyError::Nil),
                    Value::Float(f) if f.is_nan() => Some(KeyError::NaN),
                    _ => None,
                };
                if let Some(e) = bad {
                    self.set_line(tc.line);
                    return Err(self.key_error(e));
                }
                let vv = self.eval(fr, v)?;
                pairs.push((kv, vv));
            }
        }
        // positional items are stored last (they win over explicit keys)
        let items: Vec<Value> = self.stack.drain(start..).collect();
        let npos = items.len() as i64;
        let mut t = Table::from_array(items);
        for (k, v) in pairs {
            let ik = match &k {
                Value::Int(i) => Some(*i),
                Value::Float(f) => crate::numfmt::float_to_int(*f, 0),
                _ => None,
            };
            if let Some(i) = ik {
                if i >= 1 && i <= npos {
                    continue;
                }
            }
            let _ = t.set(k, v);
        }
        let t = self.new_table(t);
        Ok(Value::Table(t))
    }

    pub fn key_error(&self, e: KeyError) -> Box<LuaErrInner> {
        match e {
            KeyError::Nil => self.rt_error("table index is nil"),
            KeyError::NaN => self.rt_error("table index is NaN"),
        }
    }
}

impl Drop for Lua {
    fn drop(&mut self) {
        self.stack.clear();
        self.require_handler = None;
        // Hold a strong reference to every live table / cell while their contents
        // are released: nothing is freed recursively and all cycles are broken.
        let tables: Vec<TableRef> = self.tables.drain(..).filter_map(|w| w.upgrade()).collect();
        let cells: Vec<Rc<UpCell>> = self.cells.drain(..).filter_map(|w| w.upgrade()).collect();
        let sweep = |t: &TableRef| {
            if let Ok(mut tb) = t.try_borrow_mut() {
                let parts = tb.clear_all();
                drop(tb);
                drop(parts);
            }
        };
        sweep(&self.globals.clone());
        if let Some(sm) = self.string_meta.take() {
            sweep(&sm);
        }
        for t in tables.iter() {
            sweep(t);
        }
        for c in cells.iter() {
            c.set(Value::Nil);
        }
        self.env_cell.set(Value::Nil);
        drop(tables);
        drop(cells);
    }
}
