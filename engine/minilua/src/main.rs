fn main() {}
