//! `lua` stand-in: runs a chunk from stdin or a file.

use std::io::{Read, Write};

fn real_main(stack_bytes: usize) -> i32 {
    let args: Vec<String> = std::env::args().skip(1).collect();
    let mut file: Option<String> = None;
    for a in args.iter() {
        match a.as_str() {
            "-v" => {
                println!("Lua 5.3.6 (MiniLua)");
                return 0;
            }
            "-" => file = None,
            s if s.starts_with('-') => {}
            s => {
                if file.is_none() {
                    file = Some(s.to_string());
                }
            }
        }
    }
    let (src, name) = match &file {
        None => {
            let mut buf = Vec::new();
            if std::io::stdin().read_to_end(&mut buf).is_err() {
                eprintln!("lua: cannot read stdin");
                return 1;
            }
            (buf, "stdin".to_string())
        }
        Some(f) => match std::fs::read(f) {
            Ok(b) => (b, f.clone()),
            Err(e) => {
                eprintln!("lua: cannot open {} ({})", f, e);
                return 1;
            }
        },
    };
    let fail = |msg: &str| {
        let mut e = std::io::stderr();
        let _ = writeln!(e, "lua: {}\nstack traceback:\n\t[C]: in ?", msg);
        1
    };
    let chunk = match minilua::load(&src, &name) {
        Ok(c) => c,
        Err(e) => return fail(&format!("{}:{}: {}", name, e.line, e.msg)),
    };
    let mut lua = minilua::Lua::new();
    lua.set_budget(2_000_000_000);
    lua.set_max_call_depth(190_000);
    lua.set_native_stack_limit(stack_bytes / 4 * 3);
    lua.set_stream_stdout(true);
    if std::env::var_os("MINILUA_COMPAT_5_2").map(|v| !v.is_empty() && v != "0").unwrap_or(false) {
        lua.enable_compat_5_2();
    }
    let r = lua.run(&chunk);
    lua.flush_stdout();
    match r {
        Ok(()) => 0,
        Err(e) => {
            if e.kind == minilua::ErrorKind::Exit {
                return e.exit_code as i32;
            }
            fail(&e.msg)
        }
    }
}

fn main() {
    fn guarded(stack: usize) -> i32 {
        match std::panic::catch_unwind(move || real_main(stack)) {
            Ok(c) => c,
            Err(_) => {
                eprintln!("lua: internal error");
                1
            }
        }
    }
    // deep recursion must hit the Lua-level limits, not the native stack
    let mut code = 1;
    for stack in [4usize << 30, 1 << 30, 256 << 20, 64 << 20] {
        match std::thread::Builder::new().stack_size(stack).spawn(move || guarded(stack)) {
            Ok(h) => {
                code = h.join().unwrap_or(1);
                break;
            }
            Err(_) => continue, // could not get that much stack: try less
        }
    }
    let _ = std::io::stdout().flush();
    std::process::exit(code);
}
