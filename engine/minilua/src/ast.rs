//! Resolved AST. Plain data only (`Send + Sync`); shared through `Arc`.

#[derive(Clone, Copy, PartialEq, Eq, Debug)]
pub enum BinOp {
    Add,
    Sub,
    Mul,
    Mod,
    Pow,
    Div,
    IDiv,
    BAnd,
    BOr,
    BXor,
    Shl,
    Shr,
    Eq,
    Ne,
    Lt,
    Le,
    Gt,
    Ge,
}

#[derive(Clone, Copy, PartialEq, Eq, Debug)]
pub enum UnOp {
    Neg,
    BNot,
    Not,
    Len,
}

#[derive(Debug)]
pub enum Expr {
    Nil,
    True,
    False,
    Int(i64),
    Float(f64),
    /// string constant (index into `ChunkInner::consts`)
    Str(u32),
    Vararg,
    /// frame slot + name constant (for error messages)
    Local(u16, u32),
    /// upvalue index
    Upval(u16),
    /// global name constant
    Global(u32),
    Index(Box<(Expr, Expr)>, u32),
    /// `obj.name` / `obj["name"]` with a constant string key
    Field(Box<Expr>, u32, u32),
    Call(Box<CallExpr>),
    Function(u32),
    Bin(BinOp, Box<(Expr, Expr)>, u32),
    And(Box<(Expr, Expr)>),
    Or(Box<(Expr, Expr)>),
    Un(UnOp, Box<Expr>, u32),
    /// flattened `a .. b .. c`
    Concat(Vec<Expr>, u32),
    Paren(Box<Expr>),
    Table(Box<TableCons>),
}

impl Expr {
    pub fn is_multi(&self) -> bool {
        matches!(self, Expr::Call(_) | Expr::Vararg)
    }
    pub fn is_var(&self) -> bool {
        matches!(
            self,
            Expr::Local(..) | Expr::Upval(_) | Expr::Global(_) | Expr::Index(..) | Expr::Field(..)
        )
    }
}

#[derive(Debug)]
pub struct CallExpr {
    pub func: Expr,
    /// `obj:name(args)`: `func` is the object, `method` the name constant
    pub method: Option<u32>,
    pub args: Vec<Expr>,
    pub line: u32,
}

#[derive(Debug)]
pub struct TableCons {
    pub array: Vec<Expr>,
    /// (key, value, position among all fields) - record / `[k]=v` fields
    pub hash: Vec<(Expr, Expr)>,
    /// evaluation order: true = next array item, false = next hash item
    pub order: Vec<bool>,
    pub line: u32,
}

#[derive(Debug)]
pub struct Block {
    pub stmts: Vec<Stmt>,
    /// (label id, index of the statement to continue with)
    pub labels: Vec<(u32, u32)>,
}

#[derive(Debug)]
pub enum Stmt {
    Nop,
    /// `local a, b = e1, e2`: slots `slot..slot+n`, variable ids `var..var+n`
    Local { slot: u16, n: u16, var: u32, exprs: Vec<Expr> },
    /// `local a = e` (single, single non-multi expression)
    Local1 { slot: u16, var: u32, expr: Expr },
    LocalFunction { slot: u16, var: u32, proto: u32 },
    Assign { targets: Vec<Expr>, exprs: Vec<Expr>, line: u32 },
    Assign1 { target: Expr, expr: Expr, line: u32 },
    Call(Box<CallExpr>),
    Do(Block),
    While { cond: Expr, body: Block },
    Repeat { body: Block, cond: Expr },
    If { arms: Vec<(Expr, Block)>, orelse: Option<Block> },
    NumFor { slot: u16, var: u32, start: Expr, limit: Expr, step: Option<Expr>, body: Block, line: u32 },
    GenFor { slot: u16, nvars: u16, var: u32, exprs: Vec<Expr>, body: Block, line: u32 },
    Return { exprs: Vec<Expr>, line: u32 },
    Break,
    Goto(u32),
}

#[derive(Debug)]
pub struct UpvalDesc {
    pub name: u32,
    /// true: captures a local (slot) of the enclosing function; false: an
    /// upvalue (index) of the enclosing function
    pub from_parent_local: bool,
    pub index: u16,
}

#[derive(Debug)]
pub struct FuncProto {
    pub nparams: u16,
    pub is_vararg: bool,
    pub nslots: u16,
    pub body: Block,
    pub upvals: Vec<UpvalDesc>,
    /// indexed by variable id: is the variable captured by an inner closure
    pub captured: Vec<bool>,
    /// captured flags of the parameters are `captured[0..nparams]`
    /// goto id -> label id
    pub goto_targets: Vec<u32>,
    pub line_defined: u32,
    pub max_active_locals: u16,
}

#[derive(Debug, Default)]
pub struct ChunkInner {
    pub name: String,
    /// all function prototypes; the main function is `protos[main]`
    pub protos: Vec<FuncProto>,
    pub main: u32,
    pub consts: Vec<Box<[u8]>>,
    pub free_assigned: Vec<u32>,
    pub free_read: Vec<u32>,
}
