//! Operators, coercions and metamethod dispatch (lvm.c / ltm.c / ldebug.c).

use std::cmp::Ordering;

use crate::ast::*;
use crate::interp::{Frame, Lua, LuaErrInner, R};
use crate::numfmt::{float_to_int, float_to_string, str2num, X86_NAN};
use crate::value::*;

const MAXTAGLOOP: usize = 2000;

/// number or numeric string -> float (`tonumber` macro of lvm.h)
pub fn tofloat(v: &Value) -> Option<f64> {
    match v {
        Value::Float(f) => Some(*f),
        Value::Int(i) => Some(*i as f64),
        Value::Str(s) => match str2num(s) {
            Some(Value::Int(i)) => Some(i as f64),
            Some(Value::Float(f)) => Some(f),
            _ => None,
        },
        _ => None,
    }
}

/// `luaV_tointeger` (mode 0 exact, 1 floor, 2 ceil), strings are coerced
pub fn tointeger_mode(v: &Value, mode: u8) -> Option<i64> {
    match v {
        Value::Int(i) => Some(*i),
        Value::Float(f) => float_to_int(*f, mode),
        Value::Str(s) => match str2num(s) {
            Some(Value::Int(i)) => Some(i),
            Some(Value::Float(f)) => float_to_int(f, mode),
            _ => None,
        },
        _ => None,
    }
}

pub fn tointeger(v: &Value) -> Option<i64> {
    tointeger_mode(v, 0)
}

/// number or numeric string -> number value keeping int/float (`lua_tonumber` / `tonumber()`)
pub fn tonumber_value(v: &Value) -> Option<Value> {
    match v {
        Value::Int(_) | Value::Float(_) => Some(v.clone()),
        Value::Str(s) => str2num(s),
        _ => None,
    }
}

/// fix the sign of a freshly generated NaN to what x86-64 SSE produces
#[inline]
pub fn fnan(r: f64, a: f64, b: f64) -> f64 {
    if r.is_nan() {
        if a.is_nan() {
            return a;
        }
        if b.is_nan() {
            return b;
        }
        return X86_NAN;
    }
    r
}

pub fn int_mod(a: i64, b: i64) -> i64 {
    if b == -1 {
        return 0;
    }
    let m = a % b;
    if m != 0 && (m ^ b) < 0 {
        m + b
    } else {
        m
    }
}

pub fn int_idiv(a: i64, b: i64) -> i64 {
    if b == -1 {
        return a.wrapping_neg();
    }
    let q = a / b;
    if (a ^ b) < 0 && a % b != 0 {
        q - 1
    } else {
        q
    }
}

pub fn float_mod(a: f64, b: f64) -> f64 {
    // luai_nummod
    let mut m = a % b; // C fmod
    if m * b < 0.0 {
        m += b;
    }
    fnan(m, a, b)
}

pub fn shift_left(a: i64, b: i64) -> i64 {
    if b <= -64 || b >= 64 {
        0
    } else if b >= 0 {
        ((a as u64) << b) as i64
    } else {
        ((a as u64) >> (-b)) as i64
    }
}

fn float_arith(op: BinOp, a: f64, b: f64) -> f64 {
    match op {
        BinOp::Add => fnan(a + b, a, b),
        BinOp::Sub => fnan(a - b, a, b),
        BinOp::Mul => fnan(a * b, a, b),
        BinOp::Div => fnan(a / b, a, b),
        BinOp::Mod => float_mod(a, b),
        BinOp::IDiv => fnan((a / b).floor(), a, b),
        BinOp::Pow => pow(a, b),
        _ => 0.0,
    }
}

pub fn pow(a: f64, b: f64) -> f64 {
    fnan(a.powf(b), a, b)
}

pub fn lt_int_float(i: i64, f: f64) -> bool {
    if f.is_nan() {
        return false;
    }
    if f >= 9223372036854775808.0 {
        return true;
    }
    if f <= -9223372036854775808.0 {
        return false;
    }
    let fl = f.floor();
    if fl == f {
        i < fl as i64
    } else {
        i <= fl as i64
    }
}

pub fn le_int_float(i: i64, f: f64) -> bool {
    if f.is_nan() {
        return false;
    }
    if f >= 9223372036854775808.0 {
        return true;
    }
    if f < -9223372036854775808.0 {
        return false;
    }
    i <= f.floor() as i64
}

pub fn lt_float_int(f: f64, i: i64) -> bool {
    !f.is_nan() && !le_int_float(i, f)
}

pub fn le_float_int(f: f64, i: i64) -> bool {
    !f.is_nan() && !lt_int_float(i, f)
}

/// text of a string or number for concatenation / tostring without metamethods
pub fn basic_text(v: &Value) -> Option<Vec<u8>> {
    match v {
        Value::Str(s) => Some(s.to_vec()),
        Value::Int(i) => Some(i.to_string().into_bytes()),
        Value::Float(f) => Some(float_to_string(*f).into_bytes()),
        _ => None,
    }
}

fn event_name(op: BinOp) -> &'static [u8] {
    match op {
        BinOp::Add => b"__add",
        BinOp::Sub => b"__sub",
        BinOp::Mul => b"__mul",
        BinOp::Mod => b"__mod",
        BinOp::Pow => b"__pow",
        BinOp::Div => b"__div",
        BinOp::IDiv => b"__idiv",
        BinOp::BAnd => b"__band",
        BinOp::BOr => b"__bor",
        BinOp::BXor => b"__bxor",
        BinOp::Shl => b"__shl",
        BinOp::Shr => b"__shr",
        BinOp::Eq | BinOp::Ne => b"__eq",
        BinOp::Lt | BinOp::Gt => b"__lt",
        BinOp::Le | BinOp::Ge => b"__le",
    }
}

impl Lua {
    pub fn get_metatable(&self, v: &Value) -> Option<TableRef> {
        match v {
            Value::Table(t) => t.borrow().meta.clone(),
            Value::Str(_) => self.string_meta.clone(),
            _ => None,
        }
    }

    pub fn metamethod(&self, v: &Value, name: &[u8]) -> Value {
        match v {
            Value::Table(t) => {
                let m = match &t.borrow().meta {
                    Some(m) => m.clone(),
                    None => return Value::Nil,
                };
                let r = m.borrow().get_str(name);
                r
            }
            Value::Str(_) => match &self.string_meta {
                Some(m) => m.borrow().get_str(name),
                None => Value::Nil,
            },
            _ => Value::Nil,
        }
    }

    // ----- variable info for error messages ------------------------------------

    pub fn varinfo(&self, fr: &Frame, e: &Expr) -> String {
        let name = |k: u32| String::from_utf8_lossy(&fr.inst.chunk.consts[k as usize]).into_owned();
        match e {
            Expr::Local(_, n) => format!(" (local '{}')", name(*n)),
            Expr::Upval(i) => format!(" (upvalue '{}')", name(fr.proto.upvals[*i as usize].name)),
            Expr::Global(k) => format!(" (global '{}')", name(*k)),
            Expr::Field(_, k, _) => format!(" (field '{}')", name(*k)),
            Expr::Index(..) => " (field '?')".to_string(),
            Expr::Paren(inner) => self.varinfo(fr, inner),
            _ => String::new(),
        }
    }

    pub fn type_error(&self, fr: &Frame, v: &Value, e: Option<&Expr>, what: &str) -> Box<LuaErrInner> {
        let info = match e {
            Some(e) => self.varinfo(fr, e),
            None => String::new(),
        };
        self.rt_error(format!("attempt to {} a {} value{}", what, v.type_name(), info))
    }

    // ----- indexing -----------------------------------------------------------------

    /// `luaV_gettable` with metamethods; errors carry no variable info
    pub fn index_value(&mut self, obj: Value, key: &Value) -> R<Value> {
        let mut cur = obj;
        for _ in 0..MAXTAGLOOP {
            let tm;
            match &cur {
                Value::Table(t) => {
                    let meta = {
                        let tb = t.borrow();
                        let v = tb.get(key);
                        if !v.is_nil() {
                            return Ok(v);
                        }
                        match &tb.meta {
                            None => return Ok(Value::Nil),
                            Some(m) => m.clone(),
                        }
                    };
                    tm = meta.borrow().get_str(b"__index");
                    if tm.is_nil() {
                        return Ok(Value::Nil);
                    }
                }
                other => {
                    tm = self.metamethod(other, b"__index");
                    if tm.is_nil() {
                        return Err(self.rt_error(format!("attempt to index a {} value", other.type_name())));
                    }
                }
            }
            if tm.is_function() {
                return self.call1(tm, &[cur, key.clone()]);
            }
            cur = tm;
        }
        Err(self.rt_error("'__index' chain too long; possibly a loop"))
    }

    pub fn index_checked(&mut self, fr: &Frame, obj: Value, key: &Value, oe: &Expr, line: u32) -> R<Value> {
        self.set_line(line);
        match &obj {
            Value::Table(_) | Value::Str(_) => self.index_value(obj, key),
            _ => Err(self.type_error(fr, &obj, Some(oe), "index")),
        }
    }

    fn raw_set_checked(&mut self, t: &TableRef, key: Value, val: Value) -> R<()> {
        let r = t.borrow_mut().set(key, val);
        match r {
            Ok(()) => Ok(()),
            Err(e) => Err(self.key_error(e)),
        }
    }

    /// `luaV_settable` with metamethods
    pub fn set_index_value(&mut self, obj: Value, key: Value, val: Value) -> R<()> {
        let mut cur = obj;
        for _ in 0..MAXTAGLOOP {
            let tm;
            match &cur {
                Value::Table(t) => {
                    let meta = {
                        let tb = t.borrow();
                        match &tb.meta {
                            None => None,
                            Some(m) => {
                                if !tb.get(&key).is_nil() {
                                    None
                                } else {
                                    Some(m.clone())
                                }
                            }
                        }
                    };
                    match meta {
                        None => return self.raw_set_checked(t, key, val),
                        Some(m) => {
                            tm = m.borrow().get_str(b"__newindex");
                            if tm.is_nil() {
                                return self.raw_set_checked(t, key, val);
                            }
                        }
                    }
                }
                other => {
                    tm = self.metamethod(other, b"__newindex");
                    if tm.is_nil() {
                        return Err(self.rt_error(format!("attempt to index a {} value", other.type_name())));
                    }
                }
            }
            if tm.is_function() {
                let abase = self.stack.len();
                self.stack.push(cur);
                self.stack.push(key);
                self.stack.push(val);
                self.call_value(tm, abase)?;
                self.stack.truncate(abase);
                return Ok(());
            }
            cur = tm;
        }
        Err(self.rt_error("'__newindex' chain too long; possibly a loop"))
    }

    pub fn set_index_checked(&mut self, fr: &Frame, obj: Value, key: Value, val: Value, oe: &Expr, line: u32) -> R<()> {
        if let Value::Table(t) = &obj {
            // fast path: no metatable
            let mut tb = t.borrow_mut();
            if tb.meta.is_none() {
                return match tb.set(key, val) {
                    Ok(()) => Ok(()),
                    Err(e) => {
                        drop(tb);
                        self.set_line(line);
                        Err(self.key_error(e))
                    }
                };
            }
        }
        self.set_line(line);
        match &obj {
            Value::Table(_) | Value::Str(_) => self.set_index_value(obj, key, val),
            _ => Err(self.type_error(fr, &obj, Some(oe), "index")),
        }
    }

    // ----- arithmetic -----------------------------------------------------------------

    #[allow(clippy::too_many_arguments)]
    pub fn binary(&mut self, fr: &Frame, op: BinOp, a: Value, b: Value, ea: &Expr, eb: &Expr, line: u32) -> R<Value> {
        match op {
            BinOp::Eq => {
                if let (Value::Table(_), Value::Table(_)) = (&a, &b) {
                    self.set_line(line);
                }
                Ok(Value::Bool(self.equals(&a, &b)?))
            }
            BinOp::Ne => {
                if let (Value::Table(_), Value::Table(_)) = (&a, &b) {
                    self.set_line(line);
                }
                Ok(Value::Bool(!self.equals(&a, &b)?))
            }
            BinOp::Lt => self.less_than(&a, &b, line).map(Value::Bool),
            BinOp::Le => self.less_equal(&a, &b, line).map(Value::Bool),
            BinOp::Gt => self.less_than(&b, &a, line).map(Value::Bool),
            BinOp::Ge => self.less_equal(&b, &a, line).map(Value::Bool),
            BinOp::BAnd | BinOp::BOr | BinOp::BXor | BinOp::Shl | BinOp::Shr => {
                if let (Some(x), Some(y)) = (tointeger(&a), tointeger(&b)) {
                    return Ok(Value::Int(match op {
                        BinOp::BAnd => x & y,
                        BinOp::BOr => x | y,
                        BinOp::BXor => x ^ y,
                        BinOp::Shl => shift_left(x, y),
                        _ => shift_left(x, y.wrapping_neg()),
                    }));
                }
                self.set_line(line);
                self.arith_meta(fr, op, a, b, Some(ea), Some(eb))
            }
            _ => {
                match (&a, &b) {
                    (Value::Int(x), Value::Int(y)) => {
                        let (x, y) = (*x, *y);
                        return match op {
                            BinOp::Add => Ok(Value::Int(x.wrapping_add(y))),
                            BinOp::Sub => Ok(Value::Int(x.wrapping_sub(y))),
                            BinOp::Mul => Ok(Value::Int(x.wrapping_mul(y))),
                            BinOp::Div => Ok(Value::Float(fnan(x as f64 / y as f64, 0.0, 0.0))),
                            BinOp::Pow => Ok(Value::Float(pow(x as f64, y as f64))),
                            BinOp::Mod => {
                                if y == 0 {
                                    self.set_line(line);
                                    return Err(self.rt_error("attempt to perform 'n%0'"));
                                }
                                Ok(Value::Int(int_mod(x, y)))
                            }
                            _ => {
                                if y == 0 {
                                    self.set_line(line);
                                    return Err(self.rt_error("attempt to perform 'n//0'"));
                                }
                                Ok(Value::Int(int_idiv(x, y)))
                            }
                        };
                    }
                    (Value::Float(x), Value::Float(y)) => return Ok(Value::Float(float_arith(op, *x, *y))),
                    (Value::Int(x), Value::Float(y)) => return Ok(Value::Float(float_arith(op, *x as f64, *y))),
                    (Value::Float(x), Value::Int(y)) => return Ok(Value::Float(float_arith(op, *x, *y as f64))),
                    _ => {}
                }
                if let (Some(x), Some(y)) = (tofloat(&a), tofloat(&b)) {
                    return Ok(Value::Float(float_arith(op, x, y)));
                }
                self.set_line(line);
                self.arith_meta(fr, op, a, b, Some(ea), Some(eb))
            }
        }
    }

    /// `luaT_trybinTM`
    fn arith_meta(&mut self, fr: &Frame, op: BinOp, a: Value, b: Value, ea: Option<&Expr>, eb: Option<&Expr>) -> R<Value> {
        let ev = event_name(op);
        let mut h = self.metamethod(&a, ev);
        if h.is_nil() {
            h = self.metamethod(&b, ev);
        }
        if !h.is_nil() {
            return self.call1(h, &[a, b]);
        }
        match op {
            BinOp::BAnd | BinOp::BOr | BinOp::BXor | BinOp::Shl | BinOp::Shr => {
                if tofloat(&a).is_some() && tofloat(&b).is_some() {
                    // luaG_tointerror
                    let (_, e) = if tointeger(&a).is_none() { (&a, ea) } else { (&b, eb) };
                    let info = e.map(|e| self.varinfo(fr, e)).unwrap_or_default();
                    Err(self.rt_error(format!("number{} has no integer representation", info)))
                } else {
                    let (v, e) = if tofloat(&a).is_none() { (&a, ea) } else { (&b, eb) };
                    Err(self.type_error(fr, v, e, "perform bitwise operation on"))
                }
            }
            _ => {
                let (v, e) = if tofloat(&a).is_none() { (&a, ea) } else { (&b, eb) };
                Err(self.type_error(fr, v, e, "perform arithmetic on"))
            }
        }
    }

    pub fn unary(&mut self, fr: &Frame, op: UnOp, v: Value, e: &Expr, line: u32) -> R<Value> {
        match op {
            UnOp::Not => Ok(Value::Bool(!v.truthy())),
            UnOp::Neg => match &v {
                Value::Int(i) => Ok(Value::Int(i.wrapping_neg())),
                Value::Float(f) => Ok(Value::Float(-*f)),
                _ => {
                    if let Some(f) = tofloat(&v) {
                        return Ok(Value::Float(-f));
                    }
                    self.set_line(line);
                    let h = self.metamethod(&v, b"__unm");
                    if !h.is_nil() {
                        return self.call1(h, &[v.clone(), v]);
                    }
                    Err(self.type_error(fr, &v, Some(e), "perform arithmetic on"))
                }
            },
            UnOp::BNot => {
                if let Some(i) = tointeger(&v) {
                    return Ok(Value::Int(!i));
                }
                self.set_line(line);
                let h = self.metamethod(&v, b"__bnot");
                if !h.is_nil() {
                    return self.call1(h, &[v.clone(), v]);
                }
                if tofloat(&v).is_some() {
                    let info = self.varinfo(fr, e);
                    Err(self.rt_error(format!("number{} has no integer representation", info)))
                } else {
                    Err(self.type_error(fr, &v, Some(e), "perform bitwise operation on"))
                }
            }
            UnOp::Len => match &v {
                Value::Str(s) => Ok(Value::Int(s.len() as i64)),
                Value::Table(t) => {
                    let has_meta = t.borrow().meta.is_some();
                    if has_meta {
                        let h = self.metamethod(&v, b"__len");
                        if !h.is_nil() {
                            self.set_line(line);
                            return self.call1(h, &[v.clone()]);
                        }
                    }
                    let n = t.borrow().len();
                    Ok(Value::Int(n))
                }
                _ => {
                    self.set_line(line);
                    Err(self.type_error(fr, &v, Some(e), "get length of"))
                }
            },
        }
    }

    /// `luaV_objlen` for natives (no variable info)
    pub fn len_value(&mut self, v: &Value) -> R<Value> {
        match v {
            Value::Str(s) => Ok(Value::Int(s.len() as i64)),
            Value::Table(t) => {
                let h = self.metamethod(v, b"__len");
                if !h.is_nil() {
                    return self.call1(h, &[v.clone()]);
                }
                let n = t.borrow().len();
                Ok(Value::Int(n))
            }
            _ => Err(self.rt_error(format!("attempt to get length of a {} value", v.type_name()))),
        }
    }

    // ----- comparison -----------------------------------------------------------------

    pub fn equals(&mut self, a: &Value, b: &Value) -> R<bool> {
        if let (Value::Table(x), Value::Table(y)) = (a, b) {
            if std::rc::Rc::ptr_eq(x, y) {
                return Ok(true);
            }
            let mut h = self.metamethod(a, b"__eq");
            if h.is_nil() {
                h = self.metamethod(b, b"__eq");
            }
            if h.is_nil() {
                return Ok(false);
            }
            let r = self.call1(h, &[a.clone(), b.clone()])?;
            return Ok(r.truthy());
        }
        Ok(raw_equal(a, b))
    }

    fn order_error(&mut self, a: &Value, b: &Value) -> Box<LuaErrInner> {
        let t1 = a.type_name();
        let t2 = b.type_name();
        if t1 == t2 {
            self.rt_error(format!("attempt to compare two {} values", t1))
        } else {
            self.rt_error(format!("attempt to compare {} with {}", t1, t2))
        }
    }

    /// `luaT_callorderTM`: None when no handler exists
    fn call_order_tm(&mut self, a: &Value, b: &Value, ev: &[u8]) -> R<Option<bool>> {
        let mut h = self.metamethod(a, ev);
        if h.is_nil() {
            h = self.metamethod(b, ev);
        }
        if h.is_nil() {
            return Ok(None);
        }
        let r = self.call1(h, &[a.clone(), b.clone()])?;
        Ok(Some(r.truthy()))
    }

    pub fn less_than(&mut self, a: &Value, b: &Value, line: u32) -> R<bool> {
        match (a, b) {
            (Value::Int(x), Value::Int(y)) => Ok(x < y),
            (Value::Float(x), Value::Float(y)) => Ok(x < y),
            (Value::Int(x), Value::Float(y)) => Ok(lt_int_float(*x, *y)),
            (Value::Float(x), Value::Int(y)) => Ok(lt_float_int(*x, *y)),
            (Value::Str(x), Value::Str(y)) => Ok(x[..].cmp(&y[..]) == Ordering::Less),
            _ => {
                if line != 0 {
                    self.set_line(line);
                }
                match self.call_order_tm(a, b, b"__lt")? {
                    Some(r) => Ok(r),
                    None => Err(self.order_error(a, b)),
                }
            }
        }
    }

    pub fn less_equal(&mut self, a: &Value, b: &Value, line: u32) -> R<bool> {
        match (a, b) {
            (Value::Int(x), Value::Int(y)) => Ok(x <= y),
            (Value::Float(x), Value::Float(y)) => Ok(x <= y),
            (Value::Int(x), Value::Float(y)) => Ok(le_int_float(*x, *y)),
            (Value::Float(x), Value::Int(y)) => Ok(le_float_int(*x, *y)),
            (Value::Str(x), Value::Str(y)) => Ok(x[..].cmp(&y[..]) != Ordering::Greater),
            _ => {
                if line != 0 {
                    self.set_line(line);
                }
                if let Some(r) = self.call_order_tm(a, b, b"__le")? {
                    return Ok(r);
                }
                // try 'lt': not (b < a)
                match self.call_order_tm(b, a, b"__lt")? {
                    Some(r) => Ok(!r),
                    None => Err(self.order_error(a, b)),
                }
            }
        }
    }

    // ----- concatenation ----------------------------------------------------------------

    /// concatenates `stack[start..]` (values of `list`), pops them
    pub fn concat_range(&mut self, fr: &Frame, start: usize, list: &[Expr], line: u32) -> R<Value> {
        let all_basic = self.stack[start..]
            .iter()
            .all(|v| matches!(v, Value::Str(_) | Value::Int(_) | Value::Float(_)));
        if all_basic {
            let mut total = 0;
            for v in &self.stack[start..] {
                if let Value::Str(s) = v {
                    total += s.len();
                } else {
                    total += 24;
                }
            }
            if total > crate::lstrlib::MAX_STRING {
                return Err(self.make_error(crate::interp::ErrorKind::Budget, Value::str(b"not enough memory")));
            }
            let mut out: Vec<u8> = Vec::with_capacity(total);
            for v in &self.stack[start..] {
                match v {
                    Value::Str(s) => out.extend_from_slice(s),
                    Value::Int(i) => out.extend_from_slice(i.to_string().as_bytes()),
                    Value::Float(f) => out.extend_from_slice(float_to_string(*f).as_bytes()),
                    _ => {}
                }
            }
            self.stack.truncate(start);
            return Ok(Value::bytes(out));
        }
        self.set_line(line);
        let mut reduced = false;
        while self.stack.len() - start > 1 {
            let top = self.stack.len();
            let b = std::mem::take(&mut self.stack[top - 1]);
            let a = std::mem::take(&mut self.stack[top - 2]);
            self.stack.truncate(top - 2);
            let r = match (basic_text(&a), basic_text(&b)) {
                (Some(mut x), Some(y)) => {
                    if x.len() + y.len() > crate::lstrlib::MAX_STRING {
                        return Err(self.make_error(crate::interp::ErrorKind::Budget, Value::str(b"not enough memory")));
                    }
                    x.extend_from_slice(&y);
                    Value::bytes(x)
                }
                _ => {
                    let mut h = self.metamethod(&a, b"__concat");
                    if h.is_nil() {
                        h = self.metamethod(&b, b"__concat");
                    }
                    if h.is_nil() {
                        // luaG_concaterror
                        let ia = top - 2 - start;
                        let a_ok = matches!(a, Value::Str(_) | Value::Int(_) | Value::Float(_));
                        let (v, e) = if a_ok {
                            (&b, if reduced { None } else { list.get(ia + 1) })
                        } else {
                            (&a, list.get(ia))
                        };
                        return Err(self.type_error(fr, v, e, "concatenate"));
                    }
                    self.call1(h, &[a, b])?
                }
            };
            reduced = true;
            self.stack.push(r);
        }
        let r = self.stack.pop().unwrap_or(Value::Nil);
        self.stack.truncate(start);
        Ok(r)
    }

    /// concat of two values for natives
    pub fn concat2(&mut self, a: Value, b: Value) -> R<Value> {
        match (basic_text(&a), basic_text(&b)) {
            (Some(mut x), Some(y)) => {
                x.extend_from_slice(&y);
                Ok(Value::bytes(x))
            }
            _ => {
                let mut h = self.metamethod(&a, b"__concat");
                if h.is_nil() {
                    h = self.metamethod(&b, b"__concat");
                }
                if h.is_nil() {
                    let v = if matches!(a, Value::Str(_) | Value::Int(_) | Value::Float(_)) { &b } else { &a };
                    return Err(self.rt_error(format!("attempt to concatenate a {} value", v.type_name())));
                }
                self.call1(h, &[a, b])
            }
        }
    }

    // ----- tostring ---------------------------------------------------------------------

    /// `luaL_tolstring`
    pub fn tostring(&mut self, v: &Value) -> R<LStr> {
        let h = self.metamethod(v, b"__tostring");
        if !h.is_nil() {
            let r = self.call1(h, &[v.clone()])?;
            return match r {
                Value::Str(s) => Ok(s),
                _ => Err(self.native_error("'__tostring' must return a string")),
            };
        }
        Ok(match v {
            Value::Str(s) => s.clone(),
            other => std::rc::Rc::from(tostring_plain(other).into_bytes().into_boxed_slice()),
        })
    }
}

pub fn tostring_plain(v: &Value) -> String {
    match v {
        Value::Nil => "nil".to_string(),
        Value::Bool(b) => b.to_string(),
        Value::Int(i) => i.to_string(),
        Value::Float(f) => float_to_string(*f),
        Value::Str(s) => String::from_utf8_lossy(s).into_owned(),
        Value::Table(_) => format!("table: 0x{:08x}", v.addr()),
        Value::Func(_) => format!("function: 0x{:08x}", v.addr()),
        Value::Native(_) | Value::NativeC(_) => format!("function: 0x{:08x}", v.addr()),
        Value::Cell(_) => "cell".to_string(),
    }
}
