//! Parser + resolver: a transliteration of Lua 5.3 `lparser.c` that builds a
//! resolved AST instead of bytecode. All static checks of the real parser
//! that do not depend on register allocation are reproduced (active-local
//! limit, upvalue limit, C-levels limit, goto/label rules, break placement).

use std::collections::HashMap;
use std::hash::{BuildHasherDefault, Hasher};

/// FNV-1a: the keys are short identifiers / string constants
#[derive(Default)]
pub struct Fnv(u64);

impl Hasher for Fnv {
    #[inline]
    fn write(&mut self, bytes: &[u8]) {
        let mut h = if self.0 == 0 { 0xcbf2_9ce4_8422_2325 } else { self.0 };
        for &b in bytes {
            h = (h ^ b as u64).wrapping_mul(0x0100_0000_01b3);
        }
        self.0 = h;
    }
    #[inline]
    fn finish(&self) -> u64 {
        self.0
    }
}

type FastMap<K, V> = HashMap<K, V, BuildHasherDefault<Fnv>>;

use crate::ast::*;
use crate::lexer::{token2str, LexError, Lexer, Tok};

pub struct LoadError {
    pub line: u32,
    pub msg: String,
}

type PR<T> = Result<T, LoadError>;

const MAXVARS: usize = 200;
const MAXUPVAL: usize = 255;
const MAXCCALLS: u32 = 200;
const UNARY_PRIORITY: u8 = 12;

struct Token {
    tok: Tok,
    start: usize,
    end: usize,
}

struct VarInfo {
    name: u32,
}

struct BlockState {
    nactvar: usize,
    firstlabel: usize,
    firstgoto: usize,
    isloop: bool,
    labels: Vec<(u32, u32)>,
    nstmts: u32,
}

struct LabelDesc {
    /// None = break
    name: Option<u32>,
    line: u32,
    nactvar: usize,
    /// label id (labels) or goto id (pending gotos)
    id: u32,
}

struct FuncState {
    actvars: Vec<VarInfo>,
    nactvar: usize,
    blocks: Vec<BlockState>,
    upvals: Vec<UpvalDesc>,
    captured: Vec<bool>,
    /// var id of each registered variable (parallel to actvars)
    var_ids: Vec<u32>,
    goto_targets: Vec<u32>,
    nlabels: u32,
    is_vararg: bool,
    line_defined: u32,
    max_slots: usize,
}

enum VarKind {
    Local(usize),
    Upval(usize),
    Global,
}

pub struct Parser<'a> {
    lx: Lexer<'a>,
    t: Token,
    ahead: Option<Token>,
    lastline: u32,
    fs: Vec<FuncState>,
    consts: Vec<Box<[u8]>>,
    const_map: FastMap<Box<[u8]>, u32>,
    protos: Vec<FuncProto>,
    level: u32,
    labels: Vec<LabelDesc>,
    gotos: Vec<LabelDesc>,
    env_name: u32,
    global_use: FastMap<u32, (i64, i64)>,
}

fn lexerr(e: LexError) -> LoadError {
    LoadError { line: e.line, msg: e.msg }
}

fn unop(t: &Tok) -> Option<UnOp> {
    match t {
        Tok::Not => Some(UnOp::Not),
        Tok::Char(b'-') => Some(UnOp::Neg),
        Tok::Char(b'~') => Some(UnOp::BNot),
        Tok::Char(b'#') => Some(UnOp::Len),
        _ => None,
    }
}

#[derive(Clone, Copy, PartialEq)]
enum BOp {
    Add,
    Sub,
    Mul,
    Mod,
    Pow,
    Div,
    IDiv,
    BAnd,
    BOr,
    BXor,
    Shl,
    Shr,
    Concat,
    Eq,
    Lt,
    Le,
    Ne,
    Gt,
    Ge,
    And,
    Or,
}

fn binop(t: &Tok) -> Option<BOp> {
    Some(match t {
        Tok::Char(b'+') => BOp::Add,
        Tok::Char(b'-') => BOp::Sub,
        Tok::Char(b'*') => BOp::Mul,
        Tok::Char(b'%') => BOp::Mod,
        Tok::Char(b'^') => BOp::Pow,
        Tok::Char(b'/') => BOp::Div,
        Tok::IDiv => BOp::IDiv,
        Tok::Char(b'&') => BOp::BAnd,
        Tok::Char(b'|') => BOp::BOr,
        Tok::Char(b'~') => BOp::BXor,
        Tok::Shl => BOp::Shl,
        Tok::Shr => BOp::Shr,
        Tok::Concat => BOp::Concat,
        Tok::Ne => BOp::Ne,
        Tok::Eq => BOp::Eq,
        Tok::Char(b'<') => BOp::Lt,
        Tok::Le => BOp::Le,
        Tok::Char(b'>') => BOp::Gt,
        Tok::Ge => BOp::Ge,
        Tok::And => BOp::And,
        Tok::Or => BOp::Or,
        _ => return None,
    })
}

fn priority(op: BOp) -> (u8, u8) {
    match op {
        BOp::Add | BOp::Sub => (10, 10),
        BOp::Mul | BOp::Mod | BOp::Div | BOp::IDiv => (11, 11),
        BOp::Pow => (14, 13),
        BOp::BAnd => (6, 6),
        BOp::BOr => (4, 4),
        BOp::BXor => (5, 5),
        BOp::Shl | BOp::Shr => (7, 7),
        BOp::Concat => (9, 8),
        BOp::Eq | BOp::Lt | BOp::Le | BOp::Ne | BOp::Gt | BOp::Ge => (3, 3),
        BOp::And => (2, 2),
        BOp::Or => (1, 1),
    }
}

impl<'a> Parser<'a> {
    pub fn new(src: &'a [u8], skip_hash_line: bool) -> Parser<'a> {
        let mut p = Parser {
            lx: Lexer::new(src, skip_hash_line),
            t: Token { tok: Tok::Eos, start: 0, end: 0 },
            ahead: None,
            lastline: 1,
            fs: Vec::new(),
            consts: Vec::new(),
            const_map: FastMap::default(),
            protos: Vec::new(),
            level: 1,
            labels: Vec::new(),
            gotos: Vec::new(),
            env_name: 0,
            global_use: FastMap::default(),
        };
        p.env_name = p.konst(b"_ENV");
        p
    }

    fn konst(&mut self, s: &[u8]) -> u32 {
        if let Some(&i) = self.const_map.get(s) {
            return i;
        }
        let i = self.consts.len() as u32;
        let b: Box<[u8]> = s.into();
        self.consts.push(b.clone());
        self.const_map.insert(b, i);
        i
    }

    // ----- token handling ---------------------------------------------------

    fn lex_token(&mut self) -> PR<Token> {
        let (tok, start, end) = self.lx.lex_span().map_err(lexerr)?;
        Ok(Token { tok, start, end })
    }

    fn next(&mut self) -> PR<()> {
        self.lastline = self.lx.line;
        self.t = match self.ahead.take() {
            Some(a) => a,
            None => self.lex_token()?,
        };
        Ok(())
    }

    fn lookahead(&mut self) -> PR<&Tok> {
        if self.ahead.is_none() {
            let a = self.lex_token()?;
            self.ahead = Some(a);
        }
        Ok(&self.ahead.as_ref().unwrap().tok)
    }

    #[inline]
    fn line(&self) -> u32 {
        self.lx.line
    }

    fn near(&self) -> String {
        self.lx.near_text(&self.t.tok, self.t.start, self.t.end)
    }

    fn syntax_error<T>(&self, msg: &str) -> PR<T> {
        Err(LoadError { line: self.line(), msg: format!("{} near {}", msg, self.near()) })
    }

    fn sem_error<T>(&self, msg: String) -> PR<T> {
        Err(LoadError { line: self.line(), msg })
    }

    fn error_expected<T>(&self, what: &Tok) -> PR<T> {
        self.syntax_error(&format!("{} expected", token2str(what)))
    }

    fn error_limit<T>(&self, limit: usize, what: &str) -> PR<T> {
        let line = self.fs.last().map(|f| f.line_defined).unwrap_or(0);
        let wher = if line == 0 { "main function".to_string() } else { format!("function at line {}", line) };
        self.syntax_error(&format!("too many {} (limit is {}) in {}", what, limit, wher))
    }

    fn check_limit(&self, v: usize, l: usize, what: &str) -> PR<()> {
        if v > l {
            self.error_limit(l, what)
        } else {
            Ok(())
        }
    }

    fn testnext(&mut self, c: &Tok) -> PR<bool> {
        if self.t.tok == *c {
            self.next()?;
            Ok(true)
        } else {
            Ok(false)
        }
    }

    fn check(&self, c: &Tok) -> PR<()> {
        if self.t.tok != *c {
            self.error_expected(c)
        } else {
            Ok(())
        }
    }

    fn checknext(&mut self, c: &Tok) -> PR<()> {
        self.check(c)?;
        self.next()
    }

    fn check_condition(&self, c: bool, msg: &str) -> PR<()> {
        if !c {
            self.syntax_error(msg)
        } else {
            Ok(())
        }
    }

    fn check_match(&mut self, what: &Tok, who: &Tok, wher: u32) -> PR<()> {
        if !self.testnext(what)? {
            if wher == self.line() {
                self.error_expected(what)
            } else {
                self.syntax_error(&format!(
                    "{} expected (to close {} at line {})",
                    token2str(what),
                    token2str(who),
                    wher
                ))
            }
        } else {
            Ok(())
        }
    }

    fn str_checkname(&mut self) -> PR<u32> {
        let k = match self.t.tok {
            Tok::Name => {
                let n = self.lx.span(self.t.start, self.t.end);
                self.konst(n)
            }
            _ => return self.error_expected(&Tok::Name),
        };
        self.next()?;
        Ok(k)
    }

    fn enterlevel(&mut self) -> PR<()> {
        self.level += 1;
        self.check_limit(self.level as usize, MAXCCALLS as usize, "C levels")
    }

    fn leavelevel(&mut self) {
        self.level -= 1;
    }

    // ----- variables ----------------------------------------------------------

    fn fsr(&mut self) -> &mut FuncState {
        self.fs.last_mut().unwrap()
    }

    /// returns the slot of the new variable
    fn new_localvar(&mut self, name: u32) -> PR<usize> {
        let n = self.fs.last().unwrap().actvars.len();
        self.check_limit(n + 1, MAXVARS, "local variables")?;
        let fs = self.fsr();
        let id = fs.captured.len() as u32;
        fs.captured.push(false);
        fs.actvars.push(VarInfo { name });
        fs.var_ids.push(id);
        if fs.actvars.len() > fs.max_slots {
            fs.max_slots = fs.actvars.len();
        }
        Ok(n)
    }

    fn new_localvar_literal(&mut self, s: &str) -> PR<usize> {
        let k = self.konst(s.as_bytes());
        self.new_localvar(k)
    }

    fn adjustlocalvars(&mut self, n: usize) {
        self.fsr().nactvar += n;
    }

    fn var_id(&self, slot: usize) -> u32 {
        self.fs.last().unwrap().var_ids[slot]
    }

    fn singlevaraux(&mut self, fi: usize, n: u32, base: bool) -> PR<VarKind> {
        {
            let fs = &mut self.fs[fi];
            let mut i = fs.nactvar;
            while i > 0 {
                i -= 1;
                if fs.actvars[i].name == n {
                    if !base {
                        let id = fs.var_ids[i] as usize;
                        fs.captured[id] = true;
                    }
                    return Ok(VarKind::Local(i));
                }
            }
            for (i, u) in fs.upvals.iter().enumerate() {
                if u.name == n {
                    return Ok(VarKind::Upval(i));
                }
            }
        }
        if fi == 0 {
            return Ok(VarKind::Global);
        }
        let (from_local, idx) = match self.singlevaraux(fi - 1, n, false)? {
            VarKind::Global => return Ok(VarKind::Global),
            VarKind::Local(s) => (true, s),
            VarKind::Upval(i) => (false, i),
        };
        // newupvalue
        let nups = self.fs[fi].upvals.len();
        if nups + 1 > MAXUPVAL {
            // error is reported for the function being compiled (innermost
            // `fs` in real Lua is `fs` of this level); report with its line
            let line = self.fs[fi].line_defined;
            let wher = if line == 0 { "main function".to_string() } else { format!("function at line {}", line) };
            return self.syntax_error(&format!("too many upvalues (limit is {}) in {}", MAXUPVAL, wher));
        }
        self.fs[fi].upvals.push(UpvalDesc { name: n, from_parent_local: from_local, index: idx as u16 });
        Ok(VarKind::Upval(nups))
    }

    fn singlevar_named(&mut self, name: u32) -> PR<Expr> {
        let fi = self.fs.len() - 1;
        match self.singlevaraux(fi, name, true)? {
            VarKind::Local(s) => Ok(Expr::Local(s as u16, name)),
            VarKind::Upval(i) => Ok(Expr::Upval(i as u16)),
            VarKind::Global => {
                // global name: `_ENV.name`; register the _ENV upvalue chain
                let env = self.env_name;
                let _ = self.singlevaraux(fi, env, true)?;
                self.global_use.entry(name).or_insert((0, 0)).0 += 1;
                Ok(Expr::Global(name))
            }
        }
    }

    fn singlevar(&mut self) -> PR<Expr> {
        let name = self.str_checkname()?;
        self.singlevar_named(name)
    }

    fn mark_assigned(&mut self, e: &Expr) {
        if let Expr::Global(k) = e {
            let u = self.global_use.entry(*k).or_insert((0, 0));
            u.0 -= 1;
            u.1 += 1;
        }
    }

    // ----- blocks, labels, gotos --------------------------------------------------

    fn enterblock(&mut self, isloop: bool) {
        let firstlabel = self.labels.len();
        let firstgoto = self.gotos.len();
        let fs = self.fsr();
        let nactvar = fs.nactvar;
        fs.blocks.push(BlockState { nactvar, firstlabel, firstgoto, isloop, labels: Vec::new(), nstmts: 0 });
    }

    fn jumpscope_error<T>(&self, g: usize) -> PR<T> {
        let gt = &self.gotos[g];
        let fs = self.fs.last().unwrap();
        let vname = fs.actvars.get(gt.nactvar).map(|v| v.name).unwrap_or(0);
        let gname = match gt.name {
            Some(n) => String::from_utf8_lossy(&self.consts[n as usize]).into_owned(),
            None => "break".to_string(),
        };
        let msg = format!(
            "<goto {}> at line {} jumps into the scope of local '{}'",
            gname,
            gt.line,
            String::from_utf8_lossy(&self.consts[vname as usize])
        );
        self.sem_error(msg)
    }

    fn closegoto(&mut self, g: usize, label_nactvar: usize, label_id: u32) -> PR<()> {
        if self.gotos[g].nactvar < label_nactvar {
            return self.jumpscope_error(g);
        }
        let gt = self.gotos.remove(g);
        self.fsr().goto_targets[gt.id as usize] = label_id;
        Ok(())
    }

    /// try to close goto `g` with a label of the current block
    fn findlabel(&mut self, g: usize) -> PR<bool> {
        let first = self.fs.last().unwrap().blocks.last().unwrap().firstlabel;
        let name = self.gotos[g].name;
        if name.is_none() {
            return Ok(false);
        }
        for i in first..self.labels.len() {
            if self.labels[i].name == name {
                let (n, id) = (self.labels[i].nactvar, self.labels[i].id);
                self.closegoto(g, n, id)?;
                return Ok(true);
            }
        }
        Ok(false)
    }

    fn findgotos(&mut self, l: usize) -> PR<()> {
        let mut i = self.fs.last().unwrap().blocks.last().unwrap().firstgoto;
        while i < self.gotos.len() {
            if self.gotos[i].name.is_some() && self.gotos[i].name == self.labels[l].name {
                let (n, id) = (self.labels[l].nactvar, self.labels[l].id);
                self.closegoto(i, n, id)?;
            } else {
                i += 1;
            }
        }
        Ok(())
    }

    fn undefgoto<T>(&self, g: usize) -> PR<T> {
        let gt = &self.gotos[g];
        let msg = match gt.name {
            None => format!("<break> at line {} not inside a loop", gt.line),
            Some(n) => format!(
                "no visible label '{}' for <goto> at line {}",
                String::from_utf8_lossy(&self.consts[n as usize]),
                gt.line
            ),
        };
        self.sem_error(msg)
    }

    /// returns the labels of the block (for the Block node)
    fn leaveblock(&mut self) -> PR<Vec<(u32, u32)>> {
        let fs = self.fsr();
        let bl = fs.blocks.pop().unwrap();
        fs.actvars.truncate(bl.nactvar);
        fs.var_ids.truncate(bl.nactvar);
        fs.nactvar = bl.nactvar;
        self.labels.truncate(bl.firstlabel);
        if !self.fs.last().unwrap().blocks.is_empty() {
            // movegotosout
            let mut i = bl.firstgoto;
            while i < self.gotos.len() {
                if self.gotos[i].nactvar > bl.nactvar {
                    self.gotos[i].nactvar = bl.nactvar;
                }
                if !self.findlabel(i)? {
                    i += 1;
                }
            }
        } else if bl.firstgoto < self.gotos.len() {
            return self.undefgoto(bl.firstgoto);
        }
        Ok(bl.labels)
    }

    fn in_loop(&self) -> bool {
        self.fs.last().unwrap().blocks.iter().any(|b| b.isloop)
    }

    fn block_follow(&self, withuntil: bool) -> bool {
        match self.t.tok {
            Tok::Else | Tok::Elseif | Tok::End | Tok::Eos => true,
            Tok::Until => withuntil,
            _ => false,
        }
    }

    // ----- functions ---------------------------------------------------------------

    fn open_func(&mut self, line: u32) {
        self.fs.push(FuncState {
            actvars: Vec::new(),
            nactvar: 0,
            blocks: Vec::new(),
            upvals: Vec::new(),
            captured: Vec::new(),
            var_ids: Vec::new(),
            goto_targets: Vec::new(),
            nlabels: 0,
            is_vararg: false,
            line_defined: line,
            max_slots: 0,
        });
        self.enterblock(false);
    }

    fn close_func(&mut self, stmts: Vec<Stmt>, nparams: usize) -> PR<u32> {
        let labels = self.leaveblock()?;
        let fs = self.fs.pop().unwrap();
        let proto = FuncProto {
            nparams: nparams as u16,
            is_vararg: fs.is_vararg,
            nslots: fs.max_slots as u16,
            body: Block { stmts, labels },
            upvals: fs.upvals,
            captured: fs.captured,
            goto_targets: fs.goto_targets,
            line_defined: fs.line_defined,
            max_active_locals: fs.max_slots as u16,
        };
        self.protos.push(proto);
        Ok(self.protos.len() as u32 - 1)
    }

    pub fn parse_chunk(mut self, name: &str) -> PR<ChunkInner> {
        self.open_func(0);
        self.fsr().is_vararg = true;
        let env = self.env_name;
        self.fsr().upvals.push(UpvalDesc { name: env, from_parent_local: true, index: 0 });
        self.next()?;
        let stmts = self.statlist()?;
        self.check(&Tok::Eos)?;
        let main = self.close_func(stmts, 0)?;
        let mut free_assigned = Vec::new();
        let mut free_read = Vec::new();
        let mut keys: Vec<_> = self.global_use.iter().map(|(k, v)| (*k, *v)).collect();
        keys.sort();
        for (k, (r, w)) in keys {
            if w > 0 {
                free_assigned.push(k);
            }
            if r > 0 {
                free_read.push(k);
            }
        }
        Ok(ChunkInner {
            name: name.to_string(),
            protos: self.protos,
            main,
            consts: self.consts,
            free_assigned,
            free_read,
        })
    }

    fn body(&mut self, ismethod: bool, line: u32) -> PR<Expr> {
        self.open_func(line);
        self.checknext(&Tok::Char(b'('))?;
        let mut nparams = 0;
        if ismethod {
            self.new_localvar_literal("self")?;
            self.adjustlocalvars(1);
            nparams += 1;
        }
        // parlist
        let mut n = 0;
        if self.t.tok != Tok::Char(b')') {
            loop {
                match self.t.tok {
                    Tok::Name => {
                        let k = self.str_checkname()?;
                        self.new_localvar(k)?;
                        n += 1;
                    }
                    Tok::Dots => {
                        self.next()?;
                        self.fsr().is_vararg = true;
                    }
                    _ => return self.syntax_error("<name> or '...' expected"),
                }
                if self.fs.last().unwrap().is_vararg || !self.testnext(&Tok::Char(b','))? {
                    break;
                }
            }
        }
        self.adjustlocalvars(n);
        nparams += n;
        self.checknext(&Tok::Char(b')'))?;
        let stmts = self.statlist()?;
        self.check_match(&Tok::End, &Tok::Function, line)?;
        let idx = self.close_func(stmts, nparams)?;
        Ok(Expr::Function(idx))
    }

    // ----- expressions ------------------------------------------------------------

    fn explist(&mut self) -> PR<Vec<Expr>> {
        let mut v = vec![self.expr()?];
        while self.testnext(&Tok::Char(b','))? {
            v.push(self.expr()?);
        }
        Ok(v)
    }

    fn str_const_expr(&mut self, s: &[u8]) -> Expr {
        Expr::Str(self.konst(s))
    }

    fn funcargs(&mut self, f: Expr, method: Option<u32>, line: u32) -> PR<Expr> {
        let args = match &self.t.tok {
            Tok::Char(b'(') => {
                self.next()?;
                let a = if self.t.tok == Tok::Char(b')') { Vec::new() } else { self.explist()? };
                self.check_match(&Tok::Char(b')'), &Tok::Char(b'('), line)?;
                a
            }
            Tok::Char(b'{') => vec![self.constructor()?],
            Tok::Str(s) => {
                let s = s.clone();
                let e = self.str_const_expr(&s);
                self.next()?;
                vec![e]
            }
            _ => return self.syntax_error("function arguments expected"),
        };
        Ok(Expr::Call(Box::new(CallExpr { func: f, method, args, line })))
    }

    fn mk_index(&mut self, obj: Expr, key: Expr, line: u32) -> Expr {
        match key {
            Expr::Str(k) => Expr::Field(Box::new(obj), k, line),
            key => Expr::Index(Box::new((obj, key)), line),
        }
    }

    fn primaryexp(&mut self) -> PR<Expr> {
        match self.t.tok {
            Tok::Name => self.singlevar(),
            Tok::Char(b'(') => {
                let line = self.line();
                self.next()?;
                let e = self.expr()?;
                self.check_match(&Tok::Char(b')'), &Tok::Char(b'('), line)?;
                if e.is_multi() || e.is_var() {
                    Ok(Expr::Paren(Box::new(e)))
                } else {
                    Ok(e)
                }
            }
            _ => self.syntax_error("unexpected symbol"),
        }
    }

    fn suffixedexp(&mut self) -> PR<Expr> {
        let line = self.line();
        let mut e = self.primaryexp()?;
        loop {
            match self.t.tok {
                Tok::Char(b'.') => {
                    self.next()?;
                    let k = self.str_checkname()?;
                    let l = self.line();
                    e = Expr::Field(Box::new(e), k, l);
                }
                Tok::Char(b'[') => {
                    self.next()?;
                    let k = self.expr()?;
                    self.checknext(&Tok::Char(b']'))?;
                    let l = self.line();
                    e = self.mk_index(e, k, l);
                }
                Tok::Char(b':') => {
                    self.next()?;
                    let k = self.str_checkname()?;
                    e = self.funcargs(e, Some(k), line)?;
                }
                Tok::Char(b'(') | Tok::Str(_) | Tok::Char(b'{') => {
                    e = self.funcargs(e, None, line)?;
                }
                _ => return Ok(e),
            }
        }
    }

    fn constructor(&mut self) -> PR<Expr> {
        let line = self.line();
        self.checknext(&Tok::Char(b'{'))?;
        let mut tc = TableCons { array: Vec::new(), hash: Vec::new(), order: Vec::new(), line };
        loop {
            if self.t.tok == Tok::Char(b'}') {
                break;
            }
            // field
            let is_rec = match self.t.tok {
                Tok::Name => *self.lookahead()? == Tok::Char(b'='),
                Tok::Char(b'[') => true,
                _ => false,
            };
            if is_rec {
                let key = if let Tok::Name = self.t.tok {
                    let k = self.str_checkname()?;
                    Expr::Str(k)
                } else {
                    self.next()?; // skip '['
                    let k = self.expr()?;
                    self.checknext(&Tok::Char(b']'))?;
                    k
                };
                self.checknext(&Tok::Char(b'='))?;
                let val = self.expr()?;
                tc.hash.push((key, val));
                tc.order.push(false);
            } else {
                let e = self.expr()?;
                tc.array.push(e);
                tc.order.push(true);
            }
            if !(self.testnext(&Tok::Char(b','))? || self.testnext(&Tok::Char(b';'))?) {
                break;
            }
        }
        self.check_match(&Tok::Char(b'}'), &Tok::Char(b'{'), line)?;
        Ok(Expr::Table(Box::new(tc)))
    }

    fn simpleexp(&mut self) -> PR<Expr> {
        let e = match &self.t.tok {
            Tok::Flt(f) => Expr::Float(*f),
            Tok::Int(i) => Expr::Int(*i),
            Tok::Str(s) => {
                let s = s.clone();
                self.str_const_expr(&s)
            }
            Tok::Nil => Expr::Nil,
            Tok::True => Expr::True,
            Tok::False => Expr::False,
            Tok::Dots => {
                let ok = self.fs.last().unwrap().is_vararg;
                self.check_condition(ok, "cannot use '...' outside a vararg function")?;
                Expr::Vararg
            }
            Tok::Char(b'{') => return self.constructor(),
            Tok::Function => {
                self.next()?;
                let line = self.line();
                return self.body(false, line);
            }
            _ => return self.suffixedexp(),
        };
        self.next()?;
        Ok(e)
    }

    fn mk_unary(&mut self, op: UnOp, e: Expr, line: u32) -> Expr {
        // fold numeric literals like the real code generator does
        match (op, &e) {
            (UnOp::Neg, Expr::Int(i)) => return Expr::Int(i.wrapping_neg()),
            (UnOp::Neg, Expr::Float(f)) if *f != 0.0 && !f.is_nan() => return Expr::Float(-*f),
            _ => {}
        }
        Expr::Un(op, Box::new(e), line)
    }

    fn mk_binary(&mut self, op: BOp, a: Expr, b: Expr, line: u32) -> Expr {
        let bop = match op {
            BOp::And => return Expr::And(Box::new((a, b))),
            BOp::Or => return Expr::Or(Box::new((a, b))),
            BOp::Concat => {
                // right associative: flatten a .. (b .. c)
                return match b {
                    Expr::Concat(mut v, l2) => {
                        v.insert(0, a);
                        let _ = l2;
                        Expr::Concat(v, line)
                    }
                    b => Expr::Concat(vec![a, b], line),
                };
            }
            BOp::Add => BinOp::Add,
            BOp::Sub => BinOp::Sub,
            BOp::Mul => BinOp::Mul,
            BOp::Mod => BinOp::Mod,
            BOp::Pow => BinOp::Pow,
            BOp::Div => BinOp::Div,
            BOp::IDiv => BinOp::IDiv,
            BOp::BAnd => BinOp::BAnd,
            BOp::BOr => BinOp::BOr,
            BOp::BXor => BinOp::BXor,
            BOp::Shl => BinOp::Shl,
            BOp::Shr => BinOp::Shr,
            BOp::Eq => BinOp::Eq,
            BOp::Ne => BinOp::Ne,
            BOp::Lt => BinOp::Lt,
            BOp::Le => BinOp::Le,
            BOp::Gt => BinOp::Gt,
            BOp::Ge => BinOp::Ge,
        };
        Expr::Bin(bop, Box::new((a, b)), line)
    }

    /// returns the expression and the first untreated operator
    fn subexpr(&mut self, limit: u8) -> PR<(Expr, Option<BOp>)> {
        self.enterlevel()?;
        let mut e = if let Some(uop) = unop(&self.t.tok) {
            let line = self.line();
            self.next()?;
            let (operand, _) = self.subexpr(UNARY_PRIORITY)?;
            self.mk_unary(uop, operand, line)
        } else {
            self.simpleexp()?
        };
        let mut op = binop(&self.t.tok);
        while let Some(o) = op {
            if priority(o).0 <= limit {
                break;
            }
            let line = self.line();
            self.next()?;
            let (e2, nextop) = self.subexpr(priority(o).1)?;
            e = self.mk_binary(o, e, e2, line);
            op = nextop;
        }
        self.leavelevel();
        Ok((e, op))
    }

    fn expr(&mut self) -> PR<Expr> {
        Ok(self.subexpr(0)?.0)
    }

    // ----- statements -----------------------------------------------------------------

    fn statlist(&mut self) -> PR<Vec<Stmt>> {
        let mut stmts = Vec::new();
        while !self.block_follow(true) {
            let is_ret = self.t.tok == Tok::Return;
            if let Some(s) = self.statement()? {
                stmts.push(s);
                self.fsr().blocks.last_mut().unwrap().nstmts = stmts.len() as u32;
            }
            if is_ret {
                break;
            }
        }
        Ok(stmts)
    }

    fn block(&mut self) -> PR<Block> {
        self.enterblock(false);
        let stmts = self.statlist()?;
        let labels = self.leaveblock()?;
        Ok(Block { stmts, labels })
    }

    fn statement(&mut self) -> PR<Option<Stmt>> {
        let line = self.line();
        self.enterlevel()?;
        let r = match self.t.tok {
            Tok::Char(b';') => {
                self.next()?;
                None
            }
            Tok::If => Some(self.ifstat(line)?),
            Tok::While => Some(self.whilestat(line)?),
            Tok::Do => {
                self.next()?;
                let b = self.block()?;
                self.check_match(&Tok::End, &Tok::Do, line)?;
                Some(Stmt::Do(b))
            }
            Tok::For => Some(self.forstat(line)?),
            Tok::Repeat => Some(self.repeatstat(line)?),
            Tok::Function => Some(self.funcstat(line)?),
            Tok::Local => {
                self.next()?;
                if self.testnext(&Tok::Function)? {
                    Some(self.localfunc()?)
                } else {
                    Some(self.localstat()?)
                }
            }
            Tok::DbColon => {
                self.next()?;
                let name = self.str_checkname()?;
                self.labelstat(name, line)?;
                None
            }
            Tok::Return => {
                self.next()?;
                Some(self.retstat(line)?)
            }
            Tok::Break | Tok::Goto => Some(self.gotostat()?),
            _ => Some(self.exprstat()?),
        };
        self.leavelevel();
        Ok(r)
    }

    fn ifstat(&mut self, line: u32) -> PR<Stmt> {
        let mut arms = Vec::new();
        loop {
            // test_then_block
            self.next()?; // skip IF or ELSEIF
            let cond = self.expr()?;
            self.checknext(&Tok::Then)?;
            let b = self.block()?;
            arms.push((cond, b));
            if self.t.tok != Tok::Elseif {
                break;
            }
        }
        let orelse = if self.testnext(&Tok::Else)? { Some(self.block()?) } else { None };
        self.check_match(&Tok::End, &Tok::If, line)?;
        Ok(Stmt::If { arms, orelse })
    }

    fn whilestat(&mut self, line: u32) -> PR<Stmt> {
        self.next()?;
        let cond = self.expr()?;
        self.enterblock(true);
        self.checknext(&Tok::Do)?;
        let body = self.block()?;
        self.check_match(&Tok::End, &Tok::While, line)?;
        self.leaveblock()?;
        Ok(Stmt::While { cond, body })
    }

    fn repeatstat(&mut self, line: u32) -> PR<Stmt> {
        self.enterblock(true);
        self.enterblock(false);
        self.next()?;
        let stmts = self.statlist()?;
        self.check_match(&Tok::Until, &Tok::Repeat, line)?;
        let cond = self.expr()?;
        let labels = self.leaveblock()?;
        self.leaveblock()?;
        Ok(Stmt::Repeat { body: Block { stmts, labels }, cond })
    }

    fn forstat(&mut self, line: u32) -> PR<Stmt> {
        self.enterblock(true);
        self.next()?; // skip 'for'
        let varname = self.str_checkname()?;
        let s = match self.t.tok {
            Tok::Char(b'=') => self.fornum(varname, line)?,
            Tok::Char(b',') | Tok::In => self.forlist(varname)?,
            _ => return self.syntax_error("'=' or 'in' expected"),
        };
        self.check_match(&Tok::End, &Tok::For, line)?;
        self.leaveblock()?;
        Ok(s)
    }

    fn forbody(&mut self, nvars: usize) -> PR<Block> {
        self.adjustlocalvars(3); // control variables
        self.checknext(&Tok::Do)?;
        self.enterblock(false); // scope for declared variables
        self.adjustlocalvars(nvars);
        let b = self.block()?;
        self.leaveblock()?;
        Ok(b)
    }

    fn fornum(&mut self, varname: u32, line: u32) -> PR<Stmt> {
        self.new_localvar_literal("(for index)")?;
        self.new_localvar_literal("(for limit)")?;
        self.new_localvar_literal("(for step)")?;
        let slot = self.new_localvar(varname)?;
        let var = self.var_id(slot);
        self.checknext(&Tok::Char(b'='))?;
        let start = self.expr()?;
        self.checknext(&Tok::Char(b','))?;
        let limit = self.expr()?;
        let step = if self.testnext(&Tok::Char(b','))? { Some(self.expr()?) } else { None };
        let body = self.forbody(1)?;
        Ok(Stmt::NumFor { slot: slot as u16, var, start, limit, step, body, line })
    }

    fn forlist(&mut self, indexname: u32) -> PR<Stmt> {
        self.new_localvar_literal("(for generator)")?;
        self.new_localvar_literal("(for state)")?;
        self.new_localvar_literal("(for control)")?;
        let slot = self.new_localvar(indexname)?;
        let var = self.var_id(slot);
        let mut nvars = 1;
        while self.testnext(&Tok::Char(b','))? {
            let n = self.str_checkname()?;
            self.new_localvar(n)?;
            nvars += 1;
        }
        self.checknext(&Tok::In)?;
        let line = self.line();
        let exprs = self.explist()?;
        let body = self.forbody(nvars)?;
        Ok(Stmt::GenFor { slot: slot as u16, nvars: nvars as u16, var, exprs, body, line })
    }

    fn localfunc(&mut self) -> PR<Stmt> {
        let name = self.str_checkname()?;
        let slot = self.new_localvar(name)?;
        let var = self.var_id(slot);
        self.adjustlocalvars(1);
        let line = self.line();
        let f = self.body(false, line)?;
        let proto = match f {
            Expr::Function(p) => p,
            _ => 0,
        };
        Ok(Stmt::LocalFunction { slot: slot as u16, var, proto })
    }

    fn localstat(&mut self) -> PR<Stmt> {
        let mut nvars = 0;
        let mut first_slot = 0;
        loop {
            let n = self.str_checkname()?;
            let s = self.new_localvar(n)?;
            if nvars == 0 {
                first_slot = s;
            }
            nvars += 1;
            if !self.testnext(&Tok::Char(b','))? {
                break;
            }
        }
        let mut exprs = if self.testnext(&Tok::Char(b'='))? { self.explist()? } else { Vec::new() };
        let var = self.var_id(first_slot);
        self.adjustlocalvars(nvars);
        if nvars == 1 && exprs.len() == 1 && !exprs[0].is_multi() {
            let expr = exprs.pop().unwrap();
            return Ok(Stmt::Local1 { slot: first_slot as u16, var, expr });
        }
        Ok(Stmt::Local { slot: first_slot as u16, n: nvars as u16, var, exprs })
    }

    fn funcstat(&mut self, line: u32) -> PR<Stmt> {
        self.next()?; // skip FUNCTION
        let mut target = self.singlevar()?;
        let mut ismethod = false;
        loop {
            match self.t.tok {
                Tok::Char(b'.') => {
                    self.next()?;
                    let k = self.str_checkname()?;
                    let l = self.line();
                    target = Expr::Field(Box::new(target), k, l);
                }
                Tok::Char(b':') => {
                    self.next()?;
                    let k = self.str_checkname()?;
                    let l = self.line();
                    target = Expr::Field(Box::new(target), k, l);
                    ismethod = true;
                    break;
                }
                _ => break,
            }
        }
        let f = self.body(ismethod, line)?;
        self.mark_assigned(&target);
        Ok(Stmt::Assign1 { target, expr: f, line })
    }

    fn exprstat(&mut self) -> PR<Stmt> {
        let line = self.line();
        let e = self.suffixedexp()?;
        if self.t.tok == Tok::Char(b'=') || self.t.tok == Tok::Char(b',') {
            let mut targets = vec![e];
            // restassign (iterative)
            loop {
                let ok = targets.last().unwrap().is_var();
                self.check_condition(ok, "syntax error")?;
                if self.testnext(&Tok::Char(b','))? {
                    let nv = self.suffixedexp()?;
                    let nvars = targets.len();
                    self.check_limit(nvars + self.level as usize, MAXCCALLS as usize, "C levels")?;
                    targets.push(nv);
                } else {
                    break;
                }
            }
            self.checknext(&Tok::Char(b'='))?;
            let mut exprs = self.explist()?;
            for t in targets.iter() {
                self.mark_assigned(t);
            }
            if targets.len() == 1 && exprs.len() == 1 && !exprs[0].is_multi() {
                return Ok(Stmt::Assign1 { target: targets.pop().unwrap(), expr: exprs.pop().unwrap(), line });
            }
            Ok(Stmt::Assign { targets, exprs, line })
        } else {
            match e {
                Expr::Call(c) => Ok(Stmt::Call(c)),
                _ => self.syntax_error("syntax error"),
            }
        }
    }

    fn retstat(&mut self, line: u32) -> PR<Stmt> {
        let exprs = if self.block_follow(true) || self.t.tok == Tok::Char(b';') { Vec::new() } else { self.explist()? };
        self.testnext(&Tok::Char(b';'))?;
        Ok(Stmt::Return { exprs, line })
    }

    fn gotostat(&mut self) -> PR<Stmt> {
        let line = self.line();
        if self.testnext(&Tok::Goto)? {
            let name = self.str_checkname()?;
            let fs = self.fsr();
            let id = fs.goto_targets.len() as u32;
            fs.goto_targets.push(u32::MAX);
            let nactvar = fs.nactvar;
            self.gotos.push(LabelDesc { name: Some(name), line, nactvar, id });
            let g = self.gotos.len() - 1;
            self.findlabel(g)?;
            Ok(Stmt::Goto(id))
        } else {
            self.next()?; // skip break
            if !self.in_loop() {
                let nactvar = self.fsr().nactvar;
                self.gotos.push(LabelDesc { name: None, line, nactvar, id: 0 });
            }
            Ok(Stmt::Break)
        }
    }

    fn labelstat(&mut self, name: u32, line: u32) -> PR<()> {
        // check for repeated labels on the same block
        let first = self.fs.last().unwrap().blocks.last().unwrap().firstlabel;
        for i in first..self.labels.len() {
            if self.labels[i].name == Some(name) {
                let msg = format!(
                    "label '{}' already defined on line {}",
                    String::from_utf8_lossy(&self.consts[name as usize]),
                    self.labels[i].line
                );
                return self.sem_error(msg);
            }
        }
        self.checknext(&Tok::DbColon)?;
        let fs = self.fsr();
        let id = fs.nlabels;
        fs.nlabels += 1;
        let nactvar = fs.nactvar;
        let bl = fs.blocks.last_mut().unwrap();
        let idx = bl.nstmts;
        bl.labels.push((id, idx));
        self.labels.push(LabelDesc { name: Some(name), line, nactvar, id });
        let l = self.labels.len() - 1;
        // skipnoopstat
        while self.t.tok == Tok::Char(b';') || self.t.tok == Tok::DbColon {
            self.statement()?;
        }
        if self.block_follow(false) {
            // label is last no-op statement in the block: assume that locals
            // are already out of scope
            let n = self.fs.last().unwrap().blocks.last().unwrap().nactvar;
            self.labels[l].nactvar = n;
        }
        self.findgotos(l)
    }
}
