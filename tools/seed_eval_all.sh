#!/bin/bash
# evaluates every seeded change found under /tmp/wt-C??/seeded/{1,2} that has not been evaluated yet
for wt in /tmp/wt-C??; do
  p=$(basename $wt | sed 's/wt-//')
  for k in 1 2 3; do
    if [ -f $wt/seeded/$k/patch.diff ] && [ ! -f /verif/seeded/$p-$k/meta.json ]; then
      echo "=== $p $k $(date +%H:%M:%S)"
      python3 /verif/tools/seed_eval.py $wt $k $p 2>&1 | tail -14
    fi
  done
done
