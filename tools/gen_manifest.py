#!/usr/bin/env python3
"""Regenerates /verif/MANIFEST.json from the table below (single source of truth for claims)."""
import json, os
ROOT = os.path.dirname(os.path.dirname(os.path.abspath(__file__)))
props = [json.loads(l) for l in open(os.path.join(ROOT, 'properties.jsonl'))]

# id -> (category, technique, level text, level_note, design_ref)
CHECKS = {
 "C17": ("model_checking",
         "exhaustive bounded enumeration of input strings vs an independent reference lexer (explicit reference model, every case replayed on the real tokenizer)",
         "Every string over a 28-character alphabet (covering every token class, multi-byte characters, CR/LF, quotes) up to length 5 (quick) / 6 (thorough), every sequence of up to 3 lexeme atoms from a 200-atom list with and without separators, and the repository's own .sy files are tokenised by the real tokenizer; each result is compared with an independent maximal-munch lexer and an independent line/column index (tiling, positions, kinds, payloads). Complete enumeration of the bounded space, no sampling.",
         "Trusted: the reference lexer of DESIGN.md Appendix D and its line index. Inputs on which the reference finds an error token are compared up to that token and for tiling/positions afterwards. Nothing is claimed for strings longer than the bound other than the corpus files.",
         "DESIGN.md §4 C17, Appendix D"),
 "C13": ("model_checking",
         "exhaustive enumeration of expression trees (bounded operator count) printed two ways and re-parsed by the real parser; tree equality against the generator's tree",
         "Every expression tree with at most 3 (quick) / 4 (thorough) operator nodes over all 13 binary and 2 unary operators, with the leaves rotated through 14 atom kinds (literals, identifier, calls, index, field access, list, tuple, parenthesised if-expression), is printed fully parenthesised and with only the parentheses the documented table requires. Both texts go through the real parser (sylt_parser::tree); the two public parse trees, ignoring spans and parenthesis nodes, must equal each other and the generator's tree. Complete enumeration, no sampling.",
         "Trusted: the precedence table as written in the property statement and the minimal-parenthesis printer derived from it. Where the table is silent (operand of a unary operator, unary child of * /) the printer always parenthesises, so nothing is demanded there. Value equality follows from tree equality (the compiler only sees the tree) and is additionally covered by C01.",
         "DESIGN.md §4 C13"),
}

checks = []
for p in props:
    pid = p["id"]
    if pid not in CHECKS:
        continue
    cat, tech, text, note, ref = CHECKS[pid]
    checks.append({
        "property_id": pid,
        "quick_cmd": f"./check {pid} quick",
        "thorough_cmd": f"./check {pid} thorough",
        "evidence_file": f"/verif/evidence/{pid}.json",
        "replay_cmd_template": "./check replay {path}",
        "engine": "syltmc",
        "level_claimed": {"category": cat, "text": text, "design_ref": ref},
        "level_note": note,
        "technique": tech,
    })

NA_REASON = "check not built yet (work in progress; see DESIGN.md §7a build order)"
m = {
 "version": 1,
 "setup_cmd": "./check setup",
 "hooks": {
  "guard": "sylt_verif",
  "enable": "no source hooks exist: the harness crate links /repo's crates by path, so every check rebuilds /repo's working tree; hash seeds are controlled through a getrandom symbol in the harness binary",
  "baseline_off_cmd": "cd /repo && cargo test --workspace --no-fail-fast --offline",
  "source_commits": [],
  "add_only": True,
 },
 "engines": [
  {"name": "syltmc", "path": "/verif/engine/syltmc", "serves_properties": [c["property_id"] for c in checks],
   "kind_free_text": "Rust explorer: bounded exhaustive enumeration of inputs/programs/variants, each executed on the real compiler in-process and compared with a reference model or relation"},
  {"name": "minilua", "path": "/verif/engine/minilua", "serves_properties": [],
   "kind_free_text": "from-scratch Lua 5.3 subset (loader + VM) standing in for the lua interpreter that is absent from the sandbox"},
 ],
 "checks": checks,
 "notes": "See DESIGN.md. Known genuine defects are listed in known_findings.json; fixed ones were repaired by 'fix:' commits in /repo.",
 "not_applicable": [{"property_id": p["id"], "reason": NA_REASON} for p in props if p["id"] not in CHECKS],
}
json.dump(m, open(os.path.join(ROOT, 'MANIFEST.json'), 'w'), indent=1)
print("checks:", [c["property_id"] for c in checks])
