#!/usr/bin/env python3
"""Regenerates /verif/MANIFEST.json from the table below (single source of truth for claims)."""
import json, os
ROOT = os.path.dirname(os.path.dirname(os.path.abspath(__file__)))
props = [json.loads(l) for l in open(os.path.join(ROOT, 'properties.jsonl'))]

# id -> (category, technique, level text, level_note, design_ref)
CHECKS = {
 "C17": ("model_checking",
         "exhaustive bounded enumeration of input strings vs an independent reference lexer (explicit reference model, every case replayed on the real tokenizer)",
         "Every string over a 28-character alphabet (covering every token class, multi-byte characters, CR/LF, quotes) up to length 5 (quick) / 6 (thorough), every sequence of up to 3 lexeme atoms from a 200-atom list with and without separators, and the repository's own .sy files are tokenised by the real tokenizer; each result is compared with an independent maximal-munch lexer and an independent line/column index (tiling, positions, kinds, payloads). Complete enumeration of the bounded space, no sampling.",
         "Trusted: the reference lexer of DESIGN.md Appendix D and its line index. Inputs on which the reference finds an error token are compared up to that token and for tiling/positions afterwards. Nothing is claimed for strings longer than the bound other than the corpus files.",
         "DESIGN.md §4 C17, Appendix D"),
 "C13": ("model_checking",
         "exhaustive enumeration of expression trees (bounded operator count) printed two ways and re-parsed by the real parser; tree equality against the generator's tree",
         "Every expression tree with at most 3 (quick) / 4 (thorough) operator nodes over all 13 binary and 2 unary operators, with the leaves rotated through 14 atom kinds (literals, identifier, calls, index, field access, list, tuple, parenthesised if-expression), is printed fully parenthesised and with only the parentheses the documented table requires. Both texts go through the real parser (sylt_parser::tree); the two public parse trees, ignoring spans and parenthesis nodes, must equal each other and the generator's tree. Complete enumeration, no sampling.",
         "Trusted: the precedence table as written in the property statement and the minimal-parenthesis printer derived from it. Where the table is silent (operand of a unary operator, unary child of * /) the printer always parenthesises, so nothing is demanded there. Value equality follows from tree equality (the compiler only sees the tree) and is additionally covered by C01.",
         "DESIGN.md §4 C13"),
 "C03": ("fault_enumeration",
         "exhaustive fault enumeration: every mismatch snippet in every composition of one-hole contexts (bounded depth), with a well-typed twin as control, on the real compiler",
         "62 definite-mismatch snippets (operators on incompatible literals, arity/argument types, annotation/return/field contradictions, non-bool conditions, heterogeneous lists, calling non-functions, storing void) are planted in every composition of 11 statement contexts up to depth 2 (quick) / 3 (thorough) x 4 placements x every type-compatible one of 20 expression contexts, plus as global initialisers. Each program must be rejected with >= 1 error, zero bytes of Lua written and no panic, and the same context with the snippet's well-typed twin must compile. Complete enumeration of the product.",
         "Trusted: that each snippet is a definite mismatch as listed in the property; the surface printer (a fault reported as a syntax error, or a control that does not compile, removes the case from the count instead of producing a verdict). Mismatches that only become definite through several unannotated inference hops are out of scope.",
         "DESIGN.md §3.5, §4 C03"),
 "C04": ("fault_enumeration",
         "exhaustive fault enumeration over composed contexts with permitted twins as controls, on the real compiler",
         "43 forbidden constructs (assignment / compound assignment to :: globals, locals, parameters, case bindings, aliases of constants, captured constants; inside pu functions: assignments, := declarations, reads of mutable variables, calls of impure/unknown-purity functions, at any nesting; impure values where a pu type is declared as annotation, argument, field, return, also laundered through fn-annotated hops) are planted in every composition of statement contexts up to depth 2 / 3 x every placement (for the in-pure group: the body of a global pu function and of a pu closure, through pure-legal contexts only). Rejection with an error and acceptance of the permitted twin are required.",
         "Trusted: snippet list and printer as for C03. Known finding F-04 (purity laundering through fn-annotated bindings) is listed in known_findings.json and reported as KNOWN-FINDING.",
         "DESIGN.md §3.5, §4 C04"),
 "C05": ("fault_enumeration",
         "exhaustive fault enumeration over all small blob/enum declarations x shape faults x composed contexts, with permitted twins as controls, on the real compiler",
         "For every blob with a non-empty field subset of {a,b,c} and every enum with a non-empty variant subset of {A,B,C}, plain and generic (14 + 12 declarations): missing / unknown field in a literal, access and assignment of an absent field on a literal, variable, annotated parameter and through an unannotated parameter, a wrongly shaped blob for an annotation, unknown variant constructed / matched, case without else listing a strict subset or a superset; tuple index = length and beyond (literal, variable, parameter, deferred), tuple length mismatches in == + < annotation assignment argument; externblob instantiation; break/continue with no enclosing loop in the same function (including inside a closure inside a loop). All planted in every composition of statement contexts up to depth 2 / 3 x 4 placements; entry-point rules (no start, start not a function, wrong signature, start only in an imported file) as whole programs. Rejection + accepted twin required.",
         "Trusted: snippet generator and printer as for C03. The second observation of the property (accepted programs load as Lua) is decided by C06 on the program families.",
         "DESIGN.md §3.5, §4 C05"),
 "C15": ("fault_enumeration",
         "exhaustive fault enumeration: every local error kind x file x insertion point x preceding text shape x line-ending style, first error's file and line compared with the planted position",
         "16 local error kinds (four syntax errors, unresolved names, duplicate global, assignment to global/local constant, operator / argument / annotation mismatch between literals, break/continue outside a loop, git conflict marker) are planted at 3 insertion points (top level, function body, nested block) of each of 3 files (main, an imported file, an imported file in a sub-folder), after each of 13 preceding text shapes repeated 1-3 times (blank lines, comments, non-ASCII comments and strings, string literals spanning 1-3 lines, tabs, a very long line, multi-line calls and lists; thorough: every ordered pair of shapes), with LF and CRLF line ends. The first returned error must carry the planted file and line; rendering it must not panic. Complete enumeration of the product.",
         "Trusted: the scaffold builder's own line bookkeeping (the scaffold without a planted error must compile, else the run aborts as a machinery error). For a duplicate global either of the two definition lines is accepted. Only file and line are compared, not columns.",
         "DESIGN.md §4 C15"),
 "C16": ("exploration",
         "bounded exhaustive repetition: every listed input x every seed of a controlled hash-seed set x history positions x processes/environments, outcomes compared for identity",
         "Programs with several independent errors in one blob, enum, file or project (the shape the property singles out), valid single- and multi-file programs and the repository's own test programs are each compiled under every seed of a 16 (quick) / 64 (thorough) element seed set - one fresh thread per execution, SipHash keys supplied through the getrandom symbol std consults - and at history positions first / after 1 / after 7 other compilations in the same thread; additionally the built sylt binary is run repeatedly under two environments (NO_COLOR, cwd, HOME). Lua bytes or the full error list (kinds, files, spans, messages, rendered text) must be identical across all executions of one input.",
         "The seed dimension is bounded controlled repetition, not exhaustive (2^128 keys); the evidence reports how many distinct iteration orders a probe map showed over the seed set. ANSI colour codes are stripped before process outputs are compared. Exhaustive only over the listed inputs.",
         "DESIGN.md §3.7, §4 C16"),
 "C07": ("fault_enumeration",
         "exhaustive enumeration of short token sequences, sequences in scaffold holes and all distance-1 edits of the corpus, each run on the real compiler in supervised worker processes (death or silence of a worker is attributed to a single case)",
         "All sequences of up to 3 (quick) / 4 (thorough) tokens from an 82-token alphabet (one representative per token kind, error bytes, non-ASCII, conflict markers, multi-line string, overflowing literals) as a whole file with and without trailing newline; all sequences of up to 2 / 3 tokens in each hole of 10 valid scaffolds (top level, statement, operand, argument, blob field, case arm, type annotation, blob declaration, function header); for the 60 smallest (quick) / all ~360 (thorough) files of tests/ and std/: every single-token deletion, replacement and insertion by each of 28 critical tokens, adjacent swap, truncation before every token and at every character (std bundled for the test programs, imports resolved on disk); 62 project shapes (missing / cyclic / conflicting imports, exports.sy, std-named files, empty files, declarations inside functions; with and without std); 16 nesting ladders at depths 1..64 with a growth check. For each input: the call returns within the deadline, yields Ok or a non-empty error list, does not panic or kill the process, and every error renders (sources absent and materialised on disk).",
         "Worker processes are supervised by progress messages; a death or stall is pinned to one case by re-running the last batch case by case (an unreproducible death is a machinery error, exit 2). After 6 process deaths/hangs the exploration stops early and says so (exhaustive=false). Nothing is claimed for longer random text or nesting deeper than 64.",
         "DESIGN.md §4 C07"),
 "C01": ("model_checking",
         "bounded exhaustive enumeration of well-typed programs (derivation trees of a typed grammar, every action sequence over themed menus), each compiled by the real compiler, executed under a Lua 5.3 stand-in and compared with a reference interpreter (explicit reference model; every model trace validated against the implementation)",
         "Expression families: every well-typed expression with exactly n operator nodes (n <= 2 quick / 3 thorough in the print context, n <= 1 / 2 in all 24 statement contexts: local/global definition, function result, parameter shadowing, closure capture before a later assignment, branches, loops, unused statement, tuple/list/blob/variant element, assignment and compound assignment, value held across a side-effecting call, case arm, early return, method through self, closure per loop iteration, short-circuit operand, return from inside a loop, argument evaluation order) over ints, floats, bools, strings, tuples, blobs, enum values and lists. Statement families: every sequence of up to 3 / 4 actions over menus for loops with break/continue/ret, closures over mutable variables, blobs with aliasing and self, enums with case bindings, globals mutated from functions, plus 37 recursion templates at depth 1-3. Each program is printed, compiled, its Lua run under MiniLua and the printed lines + outcome class (done / failed <=> / <!> with line) compared with RefSylt.",
         "Trusted: MiniLua as stand-in for lua5.3 (604-snippet conformance corpus; the repository's 315 program tests pass under it), RefSylt's semantic decisions (DESIGN.md §3.3), the surface printer. Programs whose meaning depends on the read order inside one assignment, that print NaN / multi-field blobs / functions, or that exceed the budgets are skipped and counted. Known finding F-01 is listed in known_findings.json.",
         "DESIGN.md §3.2-3.4, §4 C01"),
 "C06": ("exploration",
         "exhaustive enumeration of program families and lexical corner families, the Lua loader (full 5.3 grammar + static limits) as invariant on every successfully compiled output",
         "The loader of the Lua stand-in is run on the output of every successful compile of all C01 program families and of dedicated lexical families: 22 blob field names (every Lua keyword that is a legal Sylt identifier, library and metatable names), every string literal content of length <= 3 / 4 over an 18-character alphabet (backslash, quote-like characters, %, brackets, tab, LF, CR, non-ASCII, U+2028), 25 numeric literal forms (i64 max, 1e308, 1e309, 1e-400, .5, 5., exponents), 48 expression kinds as unused statements at first/middle/last position in void and value-returning functions, and bodies/files of n statements, definitions, functions, if-statements and operands for n up to 250 / 400, with and without std.",
         "Trusted: MiniLua's loader (grammar, goto/label visibility, 200 active locals, 255 upvalues, 200 syntactic levels; register pressure not modelled). Known finding F-06d (more than 200 Lua locals for large bodies) is listed in known_findings.json.",
         "DESIGN.md §4 C06"),
 "C10": ("model_checking",
         "bounded exhaustive enumeration of recursion / closure / higher-order programs under a distinct-values discipline, Lua trace vs reference interpreter trace",
         "The recursion templates hold a value across the recursive call at each of 37 expression positions (both sides of operators, argument slots, tuple/list/blob elements, if condition and branch values, case scrutinee / binding / arm value, and/or operands, plain / compound / field assignment, locals, closures created per activation, loops, higher-order re-entry, early return) at depths 1-3 with and without tracing, plus mutual recursion through a mutable global function variable and a method re-entering through self; every action sequence (<= 3 / 4) of the closure family (two closures sharing a variable, counters from a factory, closures created per loop iteration, capture of parameters and of a global) and of the blob-method, enum-binding and global families; every expression of the expression families in the call/closure/return contexts. Every level, held value and closure instance has a different value and all intermediate results are printed, so interference between activations changes the trace.",
         "Trusted as for C01. The number of emitted chunks that assign undeclared V-names is reported as a diagnostic, not a verdict (a legitimate scheme may keep Sylt globals in Lua globals).",
         "DESIGN.md §4 C10"),
 "C08": ("exploration",
         "exhaustive enumeration of all annotation subsets of every base program; acceptance and byte identity of the emitted Lua against the un-annotated variant",
         "For every type (int, float, bool, str, tuple, blob, enum, list) and every expression of that type with at most 1 (quick) / 2 (thorough) operator nodes, a base program carries annotation sites on a global constant, a global variable, two parameters, a return type, a function local and two locals of start (8 sites; thorough adds a closure's parameter and return type for 10). All 2^8 / 2^10 subsets are compiled by the real compiler: each must be accepted and its Lua must equal the un-annotated variant's byte for byte.",
         "Annotations are correct by construction (the generator builds each term at a known type). Function-typed parameters are not sites (excluded by the property). Bases the compiler rejects without annotations are outside the property and counted.",
         "DESIGN.md §4 C08"),
 "C09": ("exploration",
         "exhaustive enumeration of all binder-to-name maps of template programs, decided by an independent lexical scope model; byte identity for consistent renamings, rejection for scope violations, reference-interpreter comparison for captures; plus a use of every binder planted at every statement position",
         "Three templates cover globals, global functions, parameters, function / block / branch / elif / else / loop locals, closure parameters and locals and case bindings. For every subset of 2..4 (quick) / 2..5 (thorough) binders and every map of the subset into its own names (identity, permutations, maximal shadowing, collisions) the scope model computes the binding graph of the renamed program: same graph => the Lua bytes must equal the base's; an unbound use or two globals with one name => must be rejected; a different closed graph => the program is compiled, run under MiniLua and compared with RefSylt, which binds lexically. Separately a read of each binder is planted at every statement position of each template and must be rejected exactly where the model finds it unbound; three programs check that a parameter / local / case binding shadows an import alias.",
         "Trusted: scope.rs (innermost enclosing declaration; definition visible after its initialiser, function definitions inside it; file globals visible everywhere). Maps giving two parameters of one function the same name are skipped. Known finding F-09 (alias.field ignores a shadowing local) is listed in known_findings.json.",
         "DESIGN.md §4 C09"),
 "C14": ("exploration",
         "exhaustive enumeration of all surface-choice vectors (call style per site, return form, loop form, layout noise, redundant parentheses, line breaks in brackets, CRLF) of every base program; identity of the emitted Lua",
         "Bases: the statement families with sequences of length <= 2 (quick) / 3 (thorough), the recursion templates, expressions of size <= 1 in call-heavy contexts and a feature-dense sample with <!> and loop do. Layout group: 4 noise patterns (blank lines, comment lines, trailing comments, tab indentation) x redundant parentheses x CRLF x line breaks after ( [ , inside brackets; compared byte for byte after masking the line number of <!>. Sugar group: every call-style vector over the first 3 / 5 call sites (f(a, b), f' a, b, a -> f(b), a -> f' b) x trailing expression vs ret x loop do vs loop true do; compared after renumbering V<n>/L<n> names by first occurrence.",
         "The surface printer avoids the documented parser traps (prime calls are wrapped, unary arguments parenthesised, signatures followed by a line break). Sugar variants are compared modulo temporary numbering because the statement does not fix numbering.",
         "DESIGN.md §4 C14"),
 "C18": ("model_checking",
         "exhaustive enumeration of operation histories (bounded length, tiny argument domains) executed by compiled Sylt programs with std bundled, every step compared with a plain reference model (Vec / BTreeMap / Option)",
         "Every history of up to 3 (quick) / 4 (thorough) operations - push, prepend, pop, get, set (indices 0, 1, 2, 5, -1), len, last, contains, find, filter, map, fold, and == of library Maybes against source literals - on lists of ints, strings and tuples, and of update / add, remove, get / contains(_key), len on dicts and sets with int, string and tuple keys, each starting from the empty and from a two-element container (from_list); each step prints its result, the final list is printed and every key of the domain is probed at the end. The math helpers (min, max, abs, clamp, sign, div, floor) on {-2..2} and {-1.5, 0.0, 2.5} and the Maybe helpers on Just/None are enumerated completely. Histories are batched 60 per compiled program; a batch with an error is re-run history by history.",
         "Trusted: the Rust models; MiniLua (pairs visits the array part in index order). Numeric helper results are compared by value where the representation (1 vs 1.0) is not fixed. Printing of multi-entry dicts/sets is never compared.",
         "DESIGN.md §4 C18"),
 "C19": ("model_checking",
         "exhaustive enumeration of all ordered pairs of finite value domains under every typed operator; results compared with the structural definition (reference interpreter) and with the algebraic laws computed on the observed result matrices",
         "17 value domains (ints incl. i64 max, floats, strings, bools, tuples of arity 0-3 with int, float/int, int/str and nested elements, lists of ints / tuples / lists, a two-field blob, a blob nesting a blob, an enum with int, no and tuple payload): every ordered pair, as literals and through variables, under every operator the checker types for the domain (== != < <= > >= + - * / unary -), and int x float under < >. Each printed result is compared with RefSylt's structural definition; on the Lua results alone the laws are checked on all pairs and triples: reflexive, symmetric, transitive equality, != complementary, < / > mirrored, trichotomy, transitive order, <= iff < or ==, >= mirrored.",
         "Trusted: RefSylt's value semantics and MiniLua. Domain/operator combinations the compiler rejects are outside the typed domain and counted.",
         "DESIGN.md §4 C19"),
}

checks = []
for p in props:
    pid = p["id"]
    if pid not in CHECKS:
        continue
    cat, tech, text, note, ref = CHECKS[pid]
    checks.append({
        "property_id": pid,
        "quick_cmd": f"./check {pid} quick",
        "thorough_cmd": f"./check {pid} thorough",
        "evidence_file": f"/verif/evidence/{pid}.json",
        "replay_cmd_template": "./check replay {path}",
        "engine": "syltmc",
        "level_claimed": {"category": cat, "text": text, "design_ref": ref},
        "level_note": note,
        "technique": tech,
    })

NA_REASON = "check not built yet (work in progress; see DESIGN.md §7a build order)"
m = {
 "version": 1,
 "setup_cmd": "./check setup",
 "hooks": {
  "guard": "sylt_verif",
  "enable": "no source hooks exist: the harness crate links /repo's crates by path, so every check rebuilds /repo's working tree; hash seeds are controlled through a getrandom symbol in the harness binary",
  "baseline_off_cmd": "cd /repo && cargo test --workspace --no-fail-fast --offline",
  "source_commits": [],
  "add_only": True,
 },
 "engines": [
  {"name": "syltmc", "path": "/verif/engine/syltmc", "serves_properties": [c["property_id"] for c in checks],
   "kind_free_text": "Rust explorer: bounded exhaustive enumeration of inputs/programs/variants, each executed on the real compiler in-process and compared with a reference model or relation"},
  {"name": "minilua", "path": "/verif/engine/minilua", "serves_properties": [],
   "kind_free_text": "from-scratch Lua 5.3 subset (loader + VM) standing in for the lua interpreter that is absent from the sandbox"},
 ],
 "checks": checks,
 "notes": "See DESIGN.md. Known genuine defects are listed in known_findings.json; fixed ones were repaired by 'fix:' commits in /repo.",
 "not_applicable": [{"property_id": p["id"], "reason": NA_REASON} for p in props if p["id"] not in CHECKS],
}
json.dump(m, open(os.path.join(ROOT, 'MANIFEST.json'), 'w'), indent=1)
print("checks:", [c["property_id"] for c in checks])
