#!/usr/bin/env python3
"""Fills the descriptive fields of /verif/seeded/*/meta.json (what the change is, what it needs in order to
manifest, what was run) from the sub-agent's README.md; never touches the measured fields."""
import json, glob, os, re
def section(text, pat):
    m = re.search(r'^##+ *(' + pat + r')[^\n]*\n(.*?)(?=^##+ |\Z)', text, re.S | re.M | re.I)
    return m.group(2).strip() if m else ''
def squeeze(t, n):
    t = re.sub(r'```.*?```', ' ', t, flags=re.S)
    t = re.sub(r'\s+', ' ', t).strip()
    return t if len(t) <= n else t[:n - 1].rsplit(' ', 1)[0] + ' …'
for f in sorted(glob.glob('/verif/seeded/*/meta.json')):
    d = os.path.dirname(f)
    m = json.load(open(f))
    readme = open(os.path.join(d, 'README.md')).read() if os.path.exists(os.path.join(d, 'README.md')) else ''
    title = ''
    for line in readme.splitlines():
        if line.startswith('#'):
            title = line.lstrip('# ').strip()
            break
    mm = re.match(r'^(.{0,40}?seed.{0,30}?)(: | - | – | — )(.*)$', title, flags=re.I)
    if mm:
        title = mm.group(3)
    files = sorted(set(re.findall(r'^\+\+\+ b/(\S+)', open(os.path.join(d, 'patch.diff')).read(), re.M)))
    m['breaks_property'] = m['property']
    m['what'] = squeeze(title, 220) + ' (' + ', '.join(os.path.basename(x) for x in files) + ')'
    needs = section(readme, r'What it needs|Needs|What is needed|When it manifests|Trigger')
    m['needs'] = squeeze(needs, 420)
    m['what_was_run'] = ('in the sub-agent\'s scratch worktree: git apply patch.diff; cargo build --offline; cargo test --workspace --no-fail-fast --offline '
                         '(158 baseline tests must pass, program_tests excepted as in the baseline); demo/run.sh must print FAIL with the change and PASS after git checkout; '
                         + ('then the quick tier of ' + ', '.join(m['checks_run']) + ' ' if m.get('checks_run') else 'then every check\'s quick tier ') + 'against a private clone of /repo HEAD with the patch applied (tools/seed_eval.py / tools/seed_recheck.py), '
                         'recorded under "checks"; /repo itself is never modified')
    json.dump(m, open(f, 'w'), indent=1)
    print(os.path.basename(d), '|', m['what'][:90], '|', m['needs'][:60])
