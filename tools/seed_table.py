#!/usr/bin/env python3
"""Prints the markdown table of DESIGN.md §14 from /verif/seeded/*/meta.json."""
import json, glob, os
notes = json.load(open('/verif/seeded/NOTES.json')) if os.path.exists('/verif/seeded/NOTES.json') else {}
rows = []
for f in sorted(glob.glob('/verif/seeded/*/meta.json')):
    m = json.load(open(f))
    d = os.path.dirname(f)
    name = os.path.basename(d)
    what = m.get('what', '')
    needs = m.get('needs', '')
    own = m['property'] in m.get('caught_by', [])
    others = [c for c in m.get('caught_by', []) if c != m['property']]
    status = 'confirmed' if m.get('confirmed') else 'NOT CONFIRMED'
    owncol = '**yes**' if own else ('no - see note' if name in notes else '**no**')
    rows.append(f"| {name} | {what} | {needs} | {status}; {m.get('tests_passed_with_change')} tests pass | {owncol} | {', '.join(others) or '-'} |")
print("| seed | change | needs in order to manifest | confirmation | caught by its own check | also caught by |")
print("|---|---|---|---|---|---|")
print("\n".join(rows))
if notes:
    print()
    for k, v in notes.items():
        print(f"* **{k}**: {v}")
