#!/bin/bash
# second wave: /tmp/w2-C??/seeded/{1,2} -> /verif/seeded/C??-w2-{1,2}
for wt in /tmp/w2-C??; do
  p=$(basename $wt | sed 's/w2-//')
  for k in 1 2 3; do
    if [ -f $wt/seeded/$k/patch.diff ] && [ ! -f /verif/seeded/$p-w2-$k/meta.json ]; then
      echo "=== $p w2 $k $(date +%H:%M:%S)"
      python3 /verif/tools/seed_eval.py $wt $k $p $p-w2-$k 2>&1 | tail -14
    fi
  done
done
