#!/usr/bin/env python3
"""Prints the §11 overview table of DESIGN.md from the evidence files (quick: evidence/, thorough: evidence_thorough/)."""
import json, os
ROOT = os.path.dirname(os.path.dirname(os.path.abspath(__file__)))
def load(d, c):
    p = os.path.join(ROOT, d, c + '.json')
    return json.load(open(p)) if os.path.exists(p) else None
def fmt(n):
    if n is None: return '-'
    if n >= 1e6: return f'{n/1e6:.1f}e6'
    if n >= 1e4: return f'{n/1e3:.0f}e3'
    return str(n)
print('| id | evaluations q / t | distinct non-trivial q / t | wall q / t (s) | exhaustive over the stated space |')
print('|---|---|---|---|---|')
for i in range(1, 21):
    c = f'C{i:02d}'
    q, t = load('evidence', c), load('evidence_thorough', c)
    def g(e, k):
        return e['coverage'].get(k) if e else None
    ex = q['coverage'].get('exhaustive') if q else None
    print(f"| {c} | {fmt(g(q,'evaluations'))} / {fmt(g(t,'evaluations'))} | {fmt(g(q,'distinct_nontrivial'))} / {fmt(g(t,'distinct_nontrivial'))} | {q['wall_s']:.0f} / {(str(round(t['wall_s'])) if t else '-')} | {'yes' if ex else 'no (seed dimension sampled by design)' if c=='C16' else ex} |")
