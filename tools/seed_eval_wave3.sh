#!/bin/bash
# third wave: /tmp/w3-C??/seeded/{1,2} -> /verif/seeded/C??-w3-{1,2}
for wt in /tmp/w3-C??; do
  p=$(basename $wt | sed 's/w3-//')
  for k in 1 2 3; do
    if [ -f $wt/seeded/$k/patch.diff ] && [ ! -f /verif/seeded/$p-w3-$k/meta.json ]; then
      echo "=== $p w3 $k $(date +%H:%M:%S)"
      python3 /verif/tools/seed_eval.py $wt $k $p $p-w3-$k 2>&1 | tail -14
    fi
  done
done
