#!/usr/bin/env python3
"""Re-run selected quick checks against a kept seeded change after the engine was strengthened.

  seed_recheck.py <label> [Cnn ...]      (default: the seed's own property)

Works like step 2 of seed_eval.py: private repo clone + private engine copy under $SEVAL_DIR
(default /tmp/seval3), so /repo itself is never touched. Updates meta.json in place
(checks[Cnn], caught_by, machinery_exits, rechecked_at).
"""
import json, os, subprocess, sys, time
label = sys.argv[1]
adhoc = os.path.isfile(label)          # a bare patch file: try it, keep nothing
if adhoc:
    d = os.path.dirname(os.path.abspath(label))
    if os.path.basename(label) != 'patch.diff':
        import shutil, tempfile
        d = tempfile.mkdtemp(); shutil.copy(label, f'{d}/patch.diff')
    meta = {'property': 'C00', 'checks': {}}
else:
    d = f'/verif/seeded/{label}'
    meta = json.load(open(f'{d}/meta.json'))
checks = sys.argv[2:] or [meta['property']]
ENG = os.environ.get('ENGINE_SRC', '/verif/engine')
S = os.environ.get('SEVAL_DIR', '/tmp/seval3')
env = dict(os.environ, CARGO_NET_OFFLINE='true', PATH='/tmp/tools:' + os.environ['PATH'], MINILUA_COMPAT_5_2='1')
def sh(cmd, cwd=None, timeout=3600, env=env):
    p = subprocess.run(cmd, shell=True, cwd=cwd, env=env, stdout=subprocess.PIPE, stderr=subprocess.STDOUT, text=True, timeout=timeout)
    return p.returncode, p.stdout
os.makedirs(S, exist_ok=True)
if not os.path.exists(f'{S}/repo/.git'):
    sh(f'git clone -q /repo {S}/repo')
sh('git fetch -q origin', cwd=f'{S}/repo')
sh('git checkout -q -f $(git -C /repo rev-parse HEAD) && git clean -fdq', cwd=f'{S}/repo')
rc, o = sh(f'git apply {d}/patch.diff', cwd=f'{S}/repo')
if rc != 0:
    print('patch does not apply', o); sys.exit(2)
sh(f'mkdir -p {S}/engine/.cargo && rsync -a --delete --exclude .cargo --exclude syltmc/Cargo.toml {ENG}/minilua {ENG}/syltmc {ENG}/Cargo.toml {ENG}/Cargo.lock {S}/engine/')
sh(f"sed 's#/repo/#{S}/repo/#g' {ENG}/syltmc/Cargo.toml > {S}/engine/syltmc/Cargo.toml.new && (cmp -s {S}/engine/syltmc/Cargo.toml.new {S}/engine/syltmc/Cargo.toml || mv {S}/engine/syltmc/Cargo.toml.new {S}/engine/syltmc/Cargo.toml); rm -f {S}/engine/syltmc/Cargo.toml.new")
open(f'{S}/engine/.cargo/config.toml', 'w').write(f'[net]\noffline = true\n[build]\ntarget-dir = "{S}/target"\n')
sh(f'rm -f {S}/target/release/syltmc')
rc, o = sh('cargo build --release --offline 2>&1 | tail -5', cwd=f'{S}/engine')
if not os.path.exists(f'{S}/target/release/syltmc'):
    print('ENGINE-BUILD-FAILED (the harness does not build against the changed tree: every check would exit 2)\n' + o[-1500:])
if rc != 0 or 'error' in o:
    print(o)
sh(f'cargo build --offline --bin sylt --target-dir {S}/target/sylt-bin 2>&1 | tail -2', cwd=f'{S}/repo')
root = f'{S}/verifroot'
sh(f'rm -rf {root} && mkdir -p {root}/target/release && cp /verif/known_findings.json {root}/ && cp {S}/target/release/lua {root}/target/release/lua')
cenv = dict(env, VERIF_ROOT=root, SYLT_BIN=f'{S}/target/sylt-bin/debug/sylt')
for c in checks:
    t0 = time.time()
    try:
        rc, o = sh(f'timeout 900 {S}/target/release/syltmc {c} --tier quick', cwd=root, env=cenv, timeout=1000)
    except subprocess.TimeoutExpired:
        rc, o = 124, 'timeout'
    sigs = sorted(set(l.strip()[4:] for l in o.splitlines() if l.strip().startswith('sig=')))
    meta['checks'][c] = {'exit': rc, 'violation': 'VIOLATION' in o, 'sigs': sigs[:6], 'wall_s': round(time.time() - t0, 1), 'rechecked': True}
    print(label, c, 'exit', rc, 'VIOLATION' if 'VIOLATION' in o else 'quiet', sigs[:3])
    if os.environ.get('SHOW'):
        print(o[-3000:])
sh(f'pkill -9 -f "{S}/target/release/syltmc c07-worker"')
allc = sorted(meta['checks'])
meta['caught_by'] = [c for c in allc if meta['checks'][c]['violation']]
meta['machinery_exits'] = [c for c in allc if meta['checks'][c]['exit'] not in (0, 1)]
meta['rechecked_at'] = time.strftime('%Y-%m-%d %H:%M:%S')
if not adhoc:
    json.dump(meta, open(f'{d}/meta.json', 'w'), indent=1)
