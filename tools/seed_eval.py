#!/usr/bin/env python3
"""Evaluate one seeded change produced by a sub-agent.

  seed_eval.py <worktree> <k> <property-id>

1. In the agent's scratch worktree: apply seeded/<k>/patch.diff, build, run the baseline test
   suite (158 tests must pass), run the demonstration (must print FAIL), revert, run it again
   (must print PASS).
2. In a private copy of the checking engine that links a private copy of /repo with the patch
   applied (so /repo itself stays untouched while this runs in the background): run every
   check's quick tier and record which ones report a VIOLATION.
3. Write /verif/seeded/<property>-<k>/ (patch.diff, demo/, README.md, meta.json).
"""
import json, os, shutil, subprocess, sys, time

wt, k, prop = sys.argv[1], sys.argv[2], sys.argv[3]
label = sys.argv[4] if len(sys.argv) > 4 else f'{prop}-{k}'
seed = os.path.join(wt, 'seeded', k)
patch = os.path.join(seed, 'patch.diff')
out_dir = f'/verif/seeded/{label}'
S = os.environ.get('SEVAL_DIR', '/tmp/seval')
env = dict(os.environ, CARGO_NET_OFFLINE='true', PATH='/tmp/tools:' + os.environ['PATH'], MINILUA_COMPAT_5_2='1')

def sh(cmd, cwd=None, timeout=3600, env=env):
    p = subprocess.run(cmd, shell=True, cwd=cwd, env=env, stdout=subprocess.PIPE, stderr=subprocess.STDOUT, text=True, timeout=timeout)
    return p.returncode, p.stdout

meta = {'property': prop, 'seed': k, 'worktree': wt, 'at': time.strftime('%Y-%m-%d %H:%M:%S')}
if not os.path.exists(patch):
    print('no patch', patch); sys.exit(2)

# ---- 1. confirm the agent's claims in its own worktree -------------------------------------------
sh('git checkout -- . ', cwd=wt)
rc, o = sh(f'git apply --check {patch}', cwd=wt)
meta['patch_applies'] = rc == 0
if rc != 0:
    meta['error'] = o[-2000:]
    print(json.dumps(meta, indent=1)); sys.exit(1)
sh(f'git apply {patch}', cwd=wt)
rc, o = sh('cargo build --offline 2>&1 | tail -3', cwd=wt)
rc, o = sh('cargo test --workspace --no-fail-fast --offline 2>&1 | grep -E "^test result|^test .* FAILED"', cwd=wt)
passed = sum(int(l.split(' passed')[0].split()[-1]) for l in o.splitlines() if l.startswith('test result'))
failed_tests = [l for l in o.splitlines() if 'FAILED' in l and l.startswith('test ')]
meta['tests_passed_with_change'] = passed
meta['tests_failed_with_change'] = failed_tests
run_sh = os.path.join(seed, 'demo', 'run.sh')
rc, o = sh(f'bash {run_sh}', cwd=wt, timeout=600)
meta['demo_with_change'] = 'FAIL' if 'FAIL' in o else ('PASS' if 'PASS' in o else 'UNKNOWN')
meta['demo_with_change_output'] = o[-1500:]
sh('git checkout -- .', cwd=wt)
sh('cargo build --offline 2>&1 | tail -3', cwd=wt)
rc, o = sh(f'bash {run_sh}', cwd=wt, timeout=600)
meta['demo_without_change'] = 'FAIL' if 'FAIL' in o else ('PASS' if 'PASS' in o else 'UNKNOWN')
meta['confirmed'] = (passed >= 158 and meta['demo_with_change'] == 'FAIL' and meta['demo_without_change'] == 'PASS'
                     and all('program_tests' in t for t in failed_tests))

# ---- 2. run every check against a private copy ----------------------------------------------------
os.makedirs(S, exist_ok=True)
if not os.path.exists(f'{S}/repo/.git'):
    sh(f'git clone -q /repo {S}/repo')
sh('git fetch -q origin && git checkout -q -f origin/main 2>/dev/null || git checkout -q -f FETCH_HEAD', cwd=f'{S}/repo')
sh('git checkout -q -f $(git -C /repo rev-parse HEAD) && git clean -fdq', cwd=f'{S}/repo')
rc, o = sh(f'git apply {patch}', cwd=f'{S}/repo')
if rc != 0:
    meta['error'] = 'patch does not apply to current /repo HEAD: ' + o[-500:]
# private engine copy with path dependencies re-pointed
# rsync keeps mtimes, so cargo only rebuilds what changed
sh(f'mkdir -p {S}/engine/.cargo && rsync -a --delete --exclude .cargo --exclude syltmc/Cargo.toml /verif/engine/minilua /verif/engine/syltmc /verif/engine/Cargo.toml /verif/engine/Cargo.lock {S}/engine/')
sh(f"sed 's#/repo/#{S}/repo/#g' /verif/engine/syltmc/Cargo.toml > {S}/engine/syltmc/Cargo.toml.new && (cmp -s {S}/engine/syltmc/Cargo.toml.new {S}/engine/syltmc/Cargo.toml || mv {S}/engine/syltmc/Cargo.toml.new {S}/engine/syltmc/Cargo.toml); rm -f {S}/engine/syltmc/Cargo.toml.new")
open(f'{S}/engine/.cargo/config.toml', 'w').write(f'[net]\noffline = true\n[build]\ntarget-dir = "{S}/target"\n')
# hard-coded source paths of corpus files stay on /repo (identical content unless the patch edits tests/std)
sh(f'rm -f {S}/target/release/syltmc')
rc, o = sh('cargo build --release --offline 2>&1 | tail -5', cwd=f'{S}/engine', timeout=3600)
if not os.path.exists(f'{S}/target/release/syltmc'):
    print('ENGINE-BUILD-FAILED (the harness does not build against the changed tree: every check would exit 2)\n' + o[-1500:])
meta['engine_build'] = o[-300:]
rc, o = sh(f'cargo build --offline --bin sylt --target-dir {S}/target/sylt-bin 2>&1 | tail -2', cwd=f'{S}/repo')
root = f'{S}/verifroot'
sh(f'rm -rf {root} && mkdir -p {root}/target/release && cp /verif/known_findings.json {root}/ && cp {S}/target/release/lua {root}/target/release/lua')
cenv = dict(env, VERIF_ROOT=root, SYLT_BIN=f'{S}/target/sylt-bin/debug/sylt')
results = {}
checks = [f'C{i:02d}' for i in range(1, 21)]
if os.environ.get('SEVAL_CHECKS'):
    only = set(os.environ['SEVAL_CHECKS'].split()) | {prop}
    checks = [c for c in checks if c in only]
    meta['checks_run'] = checks
for c in checks:
    t0 = time.time()
    try:
        rc, o = sh(f'timeout 900 {S}/target/release/syltmc {c} --tier quick', cwd=root, env=cenv, timeout=1000)
    except subprocess.TimeoutExpired:
        rc, o = 124, 'timeout'
    sigs = sorted(set(l.strip()[4:] for l in o.splitlines() if l.strip().startswith('sig=')))
    results[c] = {'exit': rc, 'violation': 'VIOLATION' in o, 'sigs': sigs[:6], 'wall_s': round(time.time() - t0, 1)}
meta['checks'] = results
meta['caught_by'] = [c for c in checks if results[c]['violation']]
meta['machinery_exits'] = [c for c in checks if results[c]['exit'] not in (0, 1)]
sh(f'pkill -9 -f "{S}/target/release/syltmc c07-worker"')

# ---- 3. keep it -----------------------------------------------------------------------------------
os.makedirs(out_dir, exist_ok=True)
shutil.copy(patch, os.path.join(out_dir, 'patch.diff'))
if os.path.isdir(os.path.join(seed, 'demo')):
    shutil.rmtree(os.path.join(out_dir, 'demo'), ignore_errors=True)
    shutil.copytree(os.path.join(seed, 'demo'), os.path.join(out_dir, 'demo'))
if os.path.exists(os.path.join(seed, 'README.md')):
    shutil.copy(os.path.join(seed, 'README.md'), os.path.join(out_dir, 'README.md'))
json.dump(meta, open(os.path.join(out_dir, 'meta.json'), 'w'), indent=1)
print(json.dumps({kk: meta[kk] for kk in ('property', 'seed', 'confirmed', 'tests_passed_with_change', 'demo_with_change', 'demo_without_change', 'caught_by', 'machinery_exits')}, indent=1))
