#!/usr/bin/env python3
"""Regenerates the generated tables of DESIGN.md (between the BEGIN/END markers) from evidence and seeded/*/meta.json."""
import subprocess, re, os
ROOT = os.path.dirname(os.path.dirname(os.path.abspath(__file__)))
p = os.path.join(ROOT, 'DESIGN.md')
s = open(p).read()
def put(name, text):
    global s
    a = s.index(f'<!-- BEGIN {name} (tools/design_update.py) -->')
    b = s.index(f'<!-- END {name} -->')
    s = s[:a] + f'<!-- BEGIN {name} (tools/design_update.py) -->\n' + text.rstrip() + '\n' + s[b:]
put('TABLE11', subprocess.check_output(['python3', os.path.join(ROOT, 'tools/design_tables.py')], text=True))
put('TABLE14', subprocess.check_output(['python3', os.path.join(ROOT, 'tools/seed_table.py')], text=True))
open(p, 'w').write(s)
print('DESIGN.md tables updated')
